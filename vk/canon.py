"""Spelling-level canonicalisation of parsed trees (library modules and rule specs alike).

Comparison spelling: `not (a op b)` becomes the negated operator, `a > b` / `a >= b` become `b < a` / `b <= a`, the
operands of == / != are put in a fixed (textual) order, `if not c: A else: B` becomes `if c: B else: A`, and a two-way
branch on a comparison gets a canonical positive polarity.  Chained comparisons are left alone.
Calls: `getattr(x, "lit")` is `x.lit`; a list comprehension consumed at once by tuple / list-free reducers
(tuple, frozenset, set, sum, any, all, sorted, min, max, dict, "".join) is a generator expression;
`tuple()`, `list()`, `dict()` are `()`, `[]`, `{}`."""
import ast

NEG = {ast.Eq: ast.NotEq, ast.NotEq: ast.Eq, ast.Lt: ast.GtE, ast.GtE: ast.Lt, ast.Gt: ast.LtE, ast.LtE: ast.Gt,
       ast.In: ast.NotIn, ast.NotIn: ast.In, ast.Is: ast.IsNot, ast.IsNot: ast.Is}
CONSUMERS = {"tuple", "frozenset", "set", "sum", "any", "all", "sorted", "min", "max", "dict"}


KEY_ITERATORS = {"list", "tuple", "frozenset", "set", "sorted", "iter", "enumerate", "min", "max", "any", "all", "len"}


def _is_keys(e) -> bool:
    return isinstance(e, ast.Call) and isinstance(e.func, ast.Attribute) and e.func.attr == "keys" and not e.args and not e.keywords


def _as_load(t):
    import copy
    t = copy.deepcopy(t)
    for n in ast.walk(t):
        if hasattr(n, "ctx"):
            n.ctx = ast.Load()
    return t


def _always_exits(block) -> bool:
    """Every path through the block ends in return / raise / break / continue."""
    if not block:
        return False
    last = block[-1]
    if isinstance(last, (ast.Return, ast.Raise, ast.Break, ast.Continue)):
        return True
    if isinstance(last, ast.If):
        return _always_exits(last.body) and _always_exits(last.orelse)
    return False


def loop_body_form(stmts):
    """In a loop body a trailing `continue` is implied, and `if c: A; continue` followed by a REST that always leaves the
    iteration is `if not c: REST` followed by A: the spelling that keeps the function-leaving branch as the guard."""
    out = list(stmts)
    changed = True
    while changed:
        changed = False
        if out and isinstance(out[-1], ast.Continue) and len(out) > 1:
            out = out[:-1]
            changed = True
        for i, s in enumerate(out):
            if isinstance(s, ast.If) and not s.orelse and s.body and isinstance(s.body[-1], ast.Continue) and i + 1 < len(out) and _always_exits(out[i + 1:]) \
                    and not any(isinstance(x, ast.Continue) for b in s.body[:-1] for x in ast.walk(b)):
                neg = ast.copy_location(ast.UnaryOp(op=ast.Not(), operand=s.test), s.test)
                neg = Canon().visit_UnaryOp(neg, descend=False)
                rest = out[i + 1:]
                body = s.body[:-1]
                s.test, s.body = neg, rest
                out = out[:i] + [s] + body
                changed = True
                break
            # `if c: A; continue` followed by a REST that falls through to the next iteration is `if c: A else: REST`
            if isinstance(s, ast.If) and not s.orelse and s.body and isinstance(s.body[-1], ast.Continue) and i + 1 < len(out) and not _always_exits(out[i + 1:]) \
                    and not any(isinstance(x, ast.Continue) for b in s.body[:-1] for x in ast.walk(b)):
                if len(s.body) > 1:
                    s.body, s.orelse = s.body[:-1], out[i + 1:]
                    s = Canon().visit_If(s, descend=False)
                else:
                    neg = ast.copy_location(ast.UnaryOp(op=ast.Not(), operand=s.test), s.test)
                    s.test, s.body = Canon().visit_UnaryOp(neg, descend=False), out[i + 1:]
                out = out[:i] + [s]
                changed = True
                break
    return out


def builder_form(stmts):
    """`L = []` directly followed by `for x in XS: [if c:] L.append(E)` (nothing else in the loop; E, XS and c do not mention
    L; no else branch) is `L = [E for x in XS if c]`."""
    out = []
    i = 0
    while i < len(stmts):
        s = stmts[i]
        nxt = stmts[i + 1] if i + 1 < len(stmts) else None
        if isinstance(s, ast.Assign) and len(s.targets) == 1 and isinstance(s.targets[0], ast.Name) and isinstance(s.value, ast.List) and not s.value.elts \
                and isinstance(nxt, ast.For) and not nxt.orelse and len(nxt.body) == 1:
            L = s.targets[0].id
            b, conds = nxt.body[0], []
            if isinstance(b, ast.If) and not b.orelse and len(b.body) == 1:
                conds, b = [b.test], b.body[0]
            if isinstance(b, ast.Expr) and isinstance(b.value, ast.Call) and isinstance(b.value.func, ast.Attribute) and b.value.func.attr == "append" \
                    and isinstance(b.value.func.value, ast.Name) and b.value.func.value.id == L and len(b.value.args) == 1 and not b.value.keywords:
                elt = b.value.args[0]
                mentions = any(isinstance(n, ast.Name) and n.id == L for e in [elt, nxt.iter, nxt.target] + conds for n in ast.walk(e))
                if not mentions and not any(isinstance(n, (ast.Yield, ast.YieldFrom, ast.Await, ast.NamedExpr)) for e in [elt] + conds for n in ast.walk(e)):
                    comp = ast.ListComp(elt=elt, generators=[ast.comprehension(target=nxt.target, iter=nxt.iter, ifs=conds, is_async=0)])
                    new = ast.copy_location(ast.Assign(targets=[s.targets[0]], value=ast.copy_location(comp, nxt)), s)
                    out.append(ast.fix_missing_locations(new))
                    i += 2
                    continue
        # D = {} directly followed by `for x in XS: [if c:] D[K] = E` (nothing else in the loop; K, E, XS and c do not mention D) is
        # D = {K: E for x in XS if c}   (a later store to an equal key replaces the earlier one in both forms)
        s_t = s.targets[0] if isinstance(s, ast.Assign) and len(s.targets) == 1 else (s.target if isinstance(s, ast.AnnAssign) and s.value is not None else None)
        if isinstance(s_t, ast.Name) and isinstance(s.value, ast.Dict) and not s.value.keys \
                and isinstance(nxt, ast.For) and not nxt.orelse and len(nxt.body) == 1:
            D = s_t.id
            b, conds = nxt.body[0], []
            if isinstance(b, ast.If) and not b.orelse and len(b.body) == 1:
                conds, b = [b.test], b.body[0]
            if isinstance(b, ast.Assign) and len(b.targets) == 1 and isinstance(b.targets[0], ast.Subscript) and isinstance(b.targets[0].value, ast.Name) \
                    and b.targets[0].value.id == D and not isinstance(b.targets[0].slice, ast.Slice):
                key, val = b.targets[0].slice, b.value
                mentions = any(isinstance(n, ast.Name) and n.id == D for e in [key, val, nxt.iter, nxt.target] + conds for n in ast.walk(e))
                if not mentions and not any(isinstance(n, (ast.Yield, ast.YieldFrom, ast.Await, ast.NamedExpr)) for e in [key, val] + conds for n in ast.walk(e)):
                    comp = ast.DictComp(key=key, value=val, generators=[ast.comprehension(target=nxt.target, iter=nxt.iter, ifs=conds, is_async=0)])
                    new = ast.copy_location(ast.Assign(targets=[ast.Name(id=D, ctx=ast.Store())], value=ast.copy_location(comp, nxt)), s)
                    out.append(ast.fix_missing_locations(new))
                    i += 2
                    continue
        # x = 0 directly followed by `for v in XS: x += E` (nothing else in the loop; E and XS do not mention x) is x = sum(E for v in XS)
        if isinstance(s, ast.Assign) and len(s.targets) == 1 and isinstance(s.targets[0], ast.Name) and isinstance(s.value, ast.Constant) and s.value.value == 0 \
                and type(s.value.value) is int and isinstance(nxt, ast.For) and not nxt.orelse and len(nxt.body) == 1 and isinstance(nxt.body[0], ast.AugAssign) \
                and isinstance(nxt.body[0].op, ast.Add) and isinstance(nxt.body[0].target, ast.Name) and nxt.body[0].target.id == s.targets[0].id:
            x = s.targets[0].id
            e = nxt.body[0].value
            if not any(isinstance(n, ast.Name) and n.id == x for part in (e, nxt.iter, nxt.target) for n in ast.walk(part)):
                gen = ast.GeneratorExp(elt=e, generators=[ast.comprehension(target=nxt.target, iter=nxt.iter, ifs=[], is_async=0)])
                call = ast.Call(func=ast.Name(id="sum", ctx=ast.Load()), args=[gen], keywords=[])
                out.append(ast.fix_missing_locations(ast.copy_location(ast.Assign(targets=[s.targets[0]], value=ast.copy_location(call, nxt)), s)))
                i += 2
                continue
        out.append(s)
        i += 1
    return out


def _boolean_valued(e) -> bool:
    if isinstance(e, ast.Compare):
        return True
    if isinstance(e, ast.UnaryOp) and isinstance(e.op, ast.Not):
        return True
    if isinstance(e, ast.BoolOp):
        return all(_boolean_valued(v) for v in e.values)
    return isinstance(e, ast.Constant) and isinstance(e.value, bool)


def bool_return_form(stmts):
    """`if c: return True` followed by `return False` is `return c` when c is boolean-valued (and the mirrored form)."""
    if len(stmts) >= 2 and isinstance(stmts[-2], ast.If) and not stmts[-2].orelse and len(stmts[-2].body) == 1 and isinstance(stmts[-2].body[0], ast.Return) \
            and isinstance(stmts[-1], ast.Return):
        a, b = stmts[-2].body[0].value, stmts[-1].value
        t = stmts[-2].test
        if isinstance(a, ast.Constant) and isinstance(b, ast.Constant) and isinstance(a.value, bool) and isinstance(b.value, bool) and a.value != b.value and _boolean_valued(t):
            if a.value:
                val = t
            else:
                val = Canon().visit_UnaryOp(ast.copy_location(ast.UnaryOp(op=ast.Not(), operand=t), t), descend=False)
            return stmts[:-2] + [ast.copy_location(ast.Return(value=val), stmts[-2])]
    return stmts


def guard_form(stmts):
    """if c: A else: B, where one branch always leaves (return / raise / break / continue), is the guard clause
    `if <leaving condition>: <leaving branch>` followed by the other branch: one spelling for
    `if ok: work else: raise`, `if not ok: raise` + work, and `if a: return x else: return y`."""
    out = []
    for s in stmts:
        if isinstance(s, ast.If) and s.orelse:
            b_exit, o_exit = _always_exits(s.body), _always_exits(s.orelse)
            if b_exit:
                rest = s.orelse
                s.orelse = []
                out.append(s)
                out.extend(guard_form(rest))
                continue
            if o_exit:
                neg = ast.copy_location(ast.UnaryOp(op=ast.Not(), operand=s.test), s.test)
                neg = Canon().visit_UnaryOp(neg, descend=False)
                rest = s.body
                s.test, s.body, s.orelse = neg, s.orelse, []
                out.append(s)
                out.extend(guard_form(rest))
                continue
        out.append(s)
    return out


def _is_len(e):
    return isinstance(e, ast.Call) and isinstance(e.func, ast.Name) and e.func.id == "len" and len(e.args) == 1 and not e.keywords


def _const(e, v):
    return isinstance(e, ast.Constant) and type(e.value) is int and e.value == v


def truth_form(t):
    """In a boolean context `len(X) > 0`, `len(X) >= 1`, `len(X) != 0` are `X`, and `len(X) == 0`, `len(X) < 1` are `not X`
    (sized containers).  Applied to the tests of if / while / conditional expressions / comprehension filters and to
    the operands of not / and / or."""
    if isinstance(t, ast.BoolOp):
        t.values = [truth_form(v) for v in t.values]
        return t
    if isinstance(t, ast.UnaryOp) and isinstance(t.op, ast.Not):
        t.operand = truth_form(t.operand)
        return t
    if isinstance(t, ast.Compare) and len(t.ops) == 1:
        l, op, r = t.left, t.ops[0], t.comparators[0]
        pos = neg = None
        if _is_len(l):
            if (isinstance(op, ast.Gt) and _const(r, 0)) or (isinstance(op, ast.GtE) and _const(r, 1)) or (isinstance(op, ast.NotEq) and _const(r, 0)):
                pos = l.args[0]
            if (isinstance(op, ast.Eq) and _const(r, 0)) or (isinstance(op, ast.Lt) and _const(r, 1)) or (isinstance(op, ast.LtE) and _const(r, 0)):
                neg = l.args[0]
        if _is_len(r):
            if (isinstance(op, ast.Lt) and _const(l, 0)) or (isinstance(op, ast.LtE) and _const(l, 1)) or (isinstance(op, ast.NotEq) and _const(l, 0)):
                pos = r.args[0]
            if (isinstance(op, ast.Eq) and _const(l, 0)) or (isinstance(op, ast.Gt) and _const(l, 1)) or (isinstance(op, ast.GtE) and _const(l, 0)):
                neg = r.args[0]
        if pos is not None:
            return pos
        if neg is not None:
            return ast.copy_location(ast.UnaryOp(op=ast.Not(), operand=neg), t)
    return t


class Canon(ast.NodeTransformer):
    def visit_UnaryOp(self, node, descend=True):
        if descend:
            self.generic_visit(node)
        if isinstance(node.op, ast.Not) and isinstance(node.operand, ast.Compare) and len(node.operand.ops) == 1 and type(node.operand.ops[0]) in NEG:
            c = node.operand
            new = ast.Compare(left=c.left, ops=[NEG[type(c.ops[0])]()], comparators=c.comparators)
            return self.visit_Compare(ast.copy_location(new, node), descend=False)
        if isinstance(node.op, ast.Not) and isinstance(node.operand, ast.UnaryOp) and isinstance(node.operand.op, ast.Not):
            pass  # `not not x` is bool(x), not x: keep
        return node

    def visit_Compare(self, node, descend=True):
        if descend:
            self.generic_visit(node)
        if len(node.ops) != 1:
            return node
        # x in d.keys()  ==  x in d   (only mappings have .keys())
        c0 = node.comparators[0]
        if isinstance(node.ops[0], (ast.In, ast.NotIn)) and isinstance(c0, ast.Call) and isinstance(c0.func, ast.Attribute) and c0.func.attr == "keys" \
                and not c0.args and not c0.keywords:
            node.comparators = [c0.func.value]
        op = type(node.ops[0])
        l, r = node.left, node.comparators[0]
        # max(X) > c  is  any(x > c for x in X);  min(X) < c  is  any(x < c for x in X)   (X non-empty, else max / min raise)
        def _ext(e):
            if isinstance(e, ast.Call) and isinstance(e.func, ast.Name) and e.func.id in ("max", "min") and len(e.args) == 1 and not e.keywords \
                    and not isinstance(e.args[0], (ast.Starred, ast.GeneratorExp, ast.ListComp)):
                return e.func.id, e.args[0]
            return None
        for side, other, flip in ((l, r, False), (r, l, True)):
            ex = _ext(side)
            if ex is None or _ext(other) is not None:
                continue
            o = op
            if flip:   # c OP ext(X)  ==  ext(X) OP' c
                o = {ast.Lt: ast.Gt, ast.Gt: ast.Lt, ast.LtE: ast.GtE, ast.GtE: ast.LtE}.get(op)
            if (ex[0] == "max" and o in (ast.Gt, ast.GtE)) or (ex[0] == "min" and o in (ast.Lt, ast.LtE)):
                import copy
                v = ast.Name(id="_m", ctx=ast.Load())
                inner = self.visit_Compare(ast.copy_location(ast.Compare(left=v, ops=[o()], comparators=[copy.deepcopy(other)]), node), descend=False)
                gen = ast.GeneratorExp(elt=inner, generators=[ast.comprehension(target=ast.Name(id="_m", ctx=ast.Store()), iter=ex[1], ifs=[], is_async=0)])
                return ast.fix_missing_locations(ast.copy_location(ast.Call(func=ast.Name(id="any", ctx=ast.Load()), args=[gen], keywords=[]), node))
        # x in ("a", "b")  is  x == "a" or x == "b"   (literal of constants, x a plain name / attribute)
        if op in (ast.In, ast.NotIn) and isinstance(r, (ast.Tuple, ast.List, ast.Set)) and 1 <= len(r.elts) <= 5 and all(isinstance(x, ast.Constant) for x in r.elts) \
                and isinstance(l, (ast.Name, ast.Attribute)):
            import copy
            cmps = [self.visit_Compare(ast.copy_location(ast.Compare(left=copy.deepcopy(l), ops=[ast.Eq() if op is ast.In else ast.NotEq()], comparators=[x]), node), descend=False)
                    for x in r.elts]
            if len(cmps) == 1:
                return cmps[0]
            return ast.copy_location(ast.BoolOp(op=ast.Or() if op is ast.In else ast.And(), values=cmps), node)
        if op in (ast.Gt, ast.GtE):
            return ast.copy_location(ast.Compare(left=r, ops=[ast.Lt() if op is ast.Gt else ast.LtE()], comparators=[l]), node)
        if op in (ast.Eq, ast.NotEq) and ast.unparse(r) < ast.unparse(l) and not isinstance(r, ast.Constant):
            return ast.copy_location(ast.Compare(left=r, ops=[op()], comparators=[l]), node)
        if op in (ast.Eq, ast.NotEq) and isinstance(l, ast.Constant) and not isinstance(r, ast.Constant):
            return ast.copy_location(ast.Compare(left=r, ops=[op()], comparators=[l]), node)
        return node

    def generic_visit(self, node):
        node = super().generic_visit(node)
        for fld in ("body", "orelse", "finalbody"):
            lst = getattr(node, fld, None)
            if isinstance(lst, list) and lst and isinstance(lst[0], ast.stmt):
                lst = builder_form(bool_return_form(guard_form(lst)))
                if fld == "body" and isinstance(node, (ast.For, ast.While)):
                    lst = guard_form(loop_body_form(lst))
                setattr(node, fld, lst or [ast.Pass()])
        if isinstance(node, ast.Try):
            for h in node.handlers:
                h.body = guard_form(h.body)
        return node

    def visit_Call(self, node):
        # getattr(x, "name") is x.name; getattr(x, "name", d) is (x.name if hasattr(x, "name") else d): with a
        # literal name the access is not dynamic, and the attribute read stays visible to every rule
        self.generic_visit(node)
        if isinstance(node.func, ast.Name) and node.func.id == "getattr" and not node.keywords and len(node.args) in (2, 3) \
                and isinstance(node.args[1], ast.Constant) and isinstance(node.args[1].value, str) and node.args[1].value.isidentifier():
            attr = ast.copy_location(ast.Attribute(value=node.args[0], attr=node.args[1].value, ctx=ast.Load()), node)
            if len(node.args) == 2:
                return attr
            has = ast.copy_location(ast.Call(func=ast.Name(id="hasattr", ctx=ast.Load()), args=[node.args[0], node.args[1]], keywords=[]), node)
            return ast.copy_location(ast.IfExp(test=has, body=attr, orelse=node.args[2]), node)
        fn = node.func.id if isinstance(node.func, ast.Name) else None
        # frozenset([a, b]) / set((a, b)) is frozenset({a, b}) / {a, b}: a display of the same elements
        if fn in ("frozenset", "set") and len(node.args) == 1 and not node.keywords and isinstance(node.args[0], (ast.List, ast.Tuple)) and node.args[0].elts \
                and not any(isinstance(x, ast.Starred) for x in node.args[0].elts):
            st = ast.copy_location(ast.Set(elts=node.args[0].elts), node.args[0])
            if fn == "set":
                return st
            node.args = [st]
            return node
        # isinstance(x, (A, B)) is isinstance(x, A) or isinstance(x, B)
        if fn == "isinstance" and len(node.args) == 2 and not node.keywords and isinstance(node.args[1], ast.Tuple) and 2 <= len(node.args[1].elts) <= 6:
            import copy
            vals = [ast.copy_location(ast.Call(func=ast.Name(id="isinstance", ctx=ast.Load()), args=[copy.deepcopy(node.args[0]), t], keywords=[]), node) for t in node.args[1].elts]
            return ast.copy_location(ast.BoolOp(op=ast.Or(), values=vals), node)
        # dict.fromkeys(X, v) is {k: v for k in X}
        if ast.unparse(node.func) == "dict.fromkeys" and len(node.args) == 2 and not node.keywords:
            comp = ast.comprehension(target=ast.Name(id="_k", ctx=ast.Store()), iter=node.args[0], ifs=[], is_async=0)
            return ast.copy_location(ast.DictComp(key=ast.Name(id="_k", ctx=ast.Load()), value=node.args[1], generators=[comp]), node)
        # an identity comprehension is its iterable:  tuple([(k, v) for k, v in d.items()])  ==  tuple(d.items())
        if (fn in CONSUMERS or fn == "list") and len(node.args) == 1 and not node.keywords and isinstance(node.args[0], (ast.ListComp, ast.GeneratorExp)):
            lc = node.args[0]
            if len(lc.generators) == 1 and not lc.generators[0].ifs and not lc.generators[0].is_async and ast.dump(lc.elt) == ast.dump(_as_load(lc.generators[0].target)):
                node.args[0] = lc.generators[0].iter
                return node
        # a list comprehension that is consumed at once is a generator expression
        if (fn in CONSUMERS or (isinstance(node.func, ast.Attribute) and node.func.attr == "join")) and node.args and isinstance(node.args[0], ast.ListComp):
            lc = node.args[0]
            node.args[0] = ast.copy_location(ast.GeneratorExp(elt=lc.elt, generators=lc.generators), lc)
            return node
        # permutations(x, len(x)) is permutations(x);  pow(a, b) is a ** b
        fq = ast.unparse(node.func)
        # iterating d.keys() is iterating d: list(d.keys()), sorted(d.keys()), frozenset(d.keys()), permutations(d.keys()) ...
        if (fn in KEY_ITERATORS or fq.split(".")[-1] in ("permutations", "combinations")) and node.args and _is_keys(node.args[0]):
            node.args[0] = node.args[0].func.value
        if fq in ("permutations", "it.permutations", "itertools.permutations") and len(node.args) == 2 and not node.keywords \
                and isinstance(node.args[1], ast.Call) and ast.unparse(node.args[1].func) == "len" and len(node.args[1].args) == 1 \
                and ast.dump(node.args[1].args[0]) == ast.dump(node.args[0]):
            node.args = [node.args[0]]
            return node
        if fn == "pow" and len(node.args) == 2 and not node.keywords:
            return ast.copy_location(ast.BinOp(left=node.args[0], op=ast.Pow(), right=node.args[1]), node)
        # len(d.keys()) is len(d)
        if fn == "len" and len(node.args) == 1 and isinstance(node.args[0], ast.Call) and isinstance(node.args[0].func, ast.Attribute) and node.args[0].func.attr == "keys" \
                and not node.args[0].args:
            node.args = [node.args[0].func.value]
            return node
        # L.pop(-1) is L.pop()
        if isinstance(node.func, ast.Attribute) and node.func.attr == "pop" and isinstance(node.func.value, ast.Name) and len(node.args) == 1 and not node.keywords \
                and isinstance(node.args[0], ast.UnaryOp) and isinstance(node.args[0].op, ast.USub) and isinstance(node.args[0].operand, ast.Constant) and node.args[0].operand.value == 1:
            node.args = []
            return node
        if isinstance(node.func, ast.Attribute) and node.func.attr == "pop" and isinstance(node.func.value, ast.Name) and len(node.args) == 1 and not node.keywords \
                and isinstance(node.args[0], ast.Constant) and node.args[0].value == -1:
            node.args = []
            return node
        # dict([p]) with p a pair held in a name is {p[0]: p[1]};  dict([(a, b)]) is {a: b}
        if fn == "dict" and len(node.args) == 1 and not node.keywords and isinstance(node.args[0], (ast.List, ast.Tuple)) and len(node.args[0].elts) == 1:
            p0 = node.args[0].elts[0]
            if isinstance(p0, ast.Name):
                import copy
                k = ast.copy_location(ast.Subscript(value=copy.deepcopy(p0), slice=ast.Constant(value=0), ctx=ast.Load()), p0)
                v = ast.copy_location(ast.Subscript(value=copy.deepcopy(p0), slice=ast.Constant(value=1), ctx=ast.Load()), p0)
                return ast.fix_missing_locations(ast.copy_location(ast.Dict(keys=[k], values=[v]), node))
            if isinstance(p0, ast.Tuple) and len(p0.elts) == 2 and not any(isinstance(x, ast.Starred) for x in p0.elts):
                return ast.copy_location(ast.Dict(keys=[p0.elts[0]], values=[p0.elts[1]]), node)
        # empty containers
        if fn in ("tuple", "list", "dict") and not node.args and not node.keywords:
            lit = {"tuple": ast.Tuple(elts=[], ctx=ast.Load()), "list": ast.List(elts=[], ctx=ast.Load()), "dict": ast.Dict(keys=[], values=[])}[fn]
            return ast.copy_location(lit, node)
        return node

    def visit_DictComp(self, node):
        # {k: v for k, v in PAIRS} is dict(PAIRS)
        self.generic_visit(node)
        if len(node.generators) == 1 and not node.generators[0].ifs and not node.generators[0].is_async:
            t = node.generators[0].target
            if isinstance(t, ast.Tuple) and len(t.elts) == 2 and all(isinstance(e, ast.Name) for e in t.elts) \
                    and isinstance(node.key, ast.Name) and isinstance(node.value, ast.Name) and node.key.id == t.elts[0].id and node.value.id == t.elts[1].id and node.key.id != node.value.id:
                return ast.copy_location(ast.Call(func=ast.Name(id="dict", ctx=ast.Load()), args=[node.generators[0].iter], keywords=[]), node)
        return node

    def visit_ListComp(self, node):
        # [x for _ in range(n)] with x a name / constant not depending on the loop is [x] * n
        self.generic_visit(node)
        if len(node.generators) == 1 and not node.generators[0].ifs and isinstance(node.generators[0].target, ast.Name) and isinstance(node.elt, (ast.Name, ast.Constant)) \
                and not (isinstance(node.elt, ast.Name) and node.elt.id == node.generators[0].target.id):
            it = node.generators[0].iter
            if isinstance(it, ast.Call) and ast.unparse(it.func) == "range" and len(it.args) == 1 and not it.keywords:
                return ast.copy_location(ast.BinOp(left=ast.List(elts=[node.elt], ctx=ast.Load()), op=ast.Mult(), right=it.args[0]), node)
        return node

    def _hoist_ifexp_args(self, node):
        """A conditional expression handed directly to a call as an argument of a simple statement,
        `x = F(..., kw=(A if c else B))`, is `kw_ = A if c else B` followed by `x = F(..., kw=kw_)`: the case split becomes a
        branch the value-case analyses see (argument expressions of constructor calls are side-effect free in the package)."""
        call = node.value
        if not isinstance(call, ast.Call):
            return None
        slots = [("kw", k) for k in call.keywords if k.arg and isinstance(k.value, ast.IfExp)]
        if len(slots) != 1 or any(isinstance(a, ast.IfExp) for a in call.args):
            return None
        k = slots[0][1]
        name = f"{k.arg}_"
        tmp = ast.copy_location(ast.Assign(targets=[ast.Name(id=name, ctx=ast.Store())], value=k.value), node)
        k.value = ast.copy_location(ast.Name(id=name, ctx=ast.Load()), k.value)
        ast.fix_missing_locations(tmp)
        first = self.visit_Assign(tmp, hoist=False)
        return (first if isinstance(first, list) else [first]) + [node]

    def visit_Assign(self, node, hoist=True):
        # x = A if c else B   ==   if c: x = A / else: x = B
        self.generic_visit(node)
        if hoist:
            h = self._hoist_ifexp_args(node)
            if h is not None:
                return h
        # (x,) = E  is  x = E[0]   (the one-element unpacking also insists that E has exactly one element; what x is bound to is the same)
        if len(node.targets) == 1 and isinstance(node.targets[0], (ast.Tuple, ast.List)) and len(node.targets[0].elts) == 1 and isinstance(node.targets[0].elts[0], ast.Name) \
                and not isinstance(node.value, (ast.Tuple, ast.List)):
            sub = ast.copy_location(ast.Subscript(value=node.value, slice=ast.Constant(value=0), ctx=ast.Load()), node.value)
            node = ast.copy_location(ast.Assign(targets=[node.targets[0].elts[0]], value=sub), node)
        # a, b = t  (t a plain name) is  a = t[0]; b = t[1]   (what a and b are bound to; the length check of the unpacking aside)
        if len(node.targets) == 1 and isinstance(node.targets[0], ast.Tuple) and 2 <= len(node.targets[0].elts) <= 3 and isinstance(node.value, ast.Name) \
                and all(isinstance(e, ast.Name) and e.id != node.value.id for e in node.targets[0].elts):
            out = []
            for k, e in enumerate(node.targets[0].elts):
                sub = ast.copy_location(ast.Subscript(value=ast.copy_location(ast.Name(id=node.value.id, ctx=ast.Load()), node.value), slice=ast.Constant(value=k), ctx=ast.Load()), node.value)
                out.append(ast.copy_location(ast.Assign(targets=[e], value=sub), node))
            for o in out:
                ast.fix_missing_locations(o)
            return out
        # a, b, c = 0, [], 0  (plain names, literal start values) is  a = 0; b = []; c = 0
        if len(node.targets) == 1 and isinstance(node.targets[0], ast.Tuple) and isinstance(node.value, ast.Tuple) and len(node.targets[0].elts) == len(node.value.elts) >= 2 \
                and all(isinstance(t, ast.Name) for t in node.targets[0].elts) \
                and all(isinstance(v, ast.Constant) or (isinstance(v, (ast.List, ast.Tuple, ast.Set)) and not v.elts) or (isinstance(v, ast.Dict) and not v.keys) for v in node.value.elts):
            out = [ast.copy_location(ast.Assign(targets=[t], value=v), node) for t, v in zip(node.targets[0].elts, node.value.elts)]
            for o in out:
                ast.fix_missing_locations(o)
            return out
        # D[k] = D[k] + e  is  D[k] += e   (an element update either way; plain names are left alone: for a list the two differ)
        if len(node.targets) == 1 and isinstance(node.targets[0], ast.Subscript) and isinstance(node.value, ast.BinOp) and isinstance(node.value.op, (ast.Add, ast.Sub, ast.Mult)) \
                and ast.dump(_as_load(node.targets[0])) == ast.dump(node.value.left):
            return ast.copy_location(ast.AugAssign(target=node.targets[0], op=node.value.op, value=node.value.right), node)
        if len(node.targets) == 1 and isinstance(node.value, ast.IfExp) and isinstance(node.targets[0], (ast.Name, ast.Attribute, ast.Subscript)):
            import copy
            ie = node.value
            a = ast.copy_location(ast.Assign(targets=[copy.deepcopy(node.targets[0])], value=ie.body), node)
            b = ast.copy_location(ast.Assign(targets=[copy.deepcopy(node.targets[0])], value=ie.orelse), node)
            return self.visit_If(ast.copy_location(ast.If(test=ie.test, body=[a], orelse=[b]), node), descend=False)
        return node

    def visit_FunctionDef(self, node):
        # at the top level of a function a bare `if c: return` followed by REST (the function then ends) is `if not c: REST`
        # (`return None` in a function that returns values is left alone: rules about what is returned read it)
        node = self.generic_visit(node)
        body = node.body
        for i in range(len(body) - 2, -1, -1):
            s = body[i]
            if isinstance(s, ast.If) and not s.orelse and len(s.body) == 1 and isinstance(s.body[0], ast.Return) and s.body[0].value is None:
                rest = body[i + 1:]
                if not rest:
                    continue
                neg = self.visit_UnaryOp(ast.copy_location(ast.UnaryOp(op=ast.Not(), operand=s.test), s.test), descend=False)
                new_if = ast.copy_location(ast.If(test=neg, body=rest, orelse=[]), s)
                new_if = self.visit_If(new_if, descend=False)
                body[i:] = new_if if isinstance(new_if, list) else [new_if]
        node.body = body
        return node

    def visit_Expr(self, node):
        # L.extend([E for x in XS if c])  is  for x in XS: if c: L.append(E)   (L a plain name E, XS and c do not mention)
        self.generic_visit(node)
        c = node.value
        # self.election_states.extend(X) is self.election_states += X (the recorded states of an election are a list)
        if isinstance(c, ast.Call) and isinstance(c.func, ast.Attribute) and c.func.attr == "extend" and len(c.args) == 1 and not c.keywords \
                and isinstance(c.func.value, ast.Attribute) and c.func.value.attr == "election_states" and isinstance(c.func.value.value, ast.Name) and c.func.value.value.id == "self":
            tgt = ast.Attribute(value=c.func.value.value, attr="election_states", ctx=ast.Store())
            return ast.fix_missing_locations(ast.copy_location(ast.AugAssign(target=tgt, op=ast.Add(), value=c.args[0]), node))
        if isinstance(c, ast.Call) and isinstance(c.func, ast.Attribute) and c.func.attr == "extend" and isinstance(c.func.value, ast.Name) and len(c.args) == 1 and not c.keywords \
                and isinstance(c.args[0], (ast.ListComp, ast.GeneratorExp)) and len(c.args[0].generators) == 1 and not c.args[0].generators[0].is_async:
            lc, g, L = c.args[0], c.args[0].generators[0], c.func.value.id
            if not any(isinstance(n, ast.Name) and n.id == L for n in ast.walk(lc)):
                app = ast.Expr(value=ast.Call(func=ast.Attribute(value=ast.Name(id=L, ctx=ast.Load()), attr="append", ctx=ast.Load()), args=[lc.elt], keywords=[]))
                body = [app]
                for t in reversed(g.ifs):
                    body = [ast.If(test=t, body=body, orelse=[])]
                loop = ast.For(target=g.target, iter=g.iter, body=body, orelse=[], type_comment=None)
                return ast.fix_missing_locations(ast.copy_location(loop, node))
        return node

    def visit_Return(self, node):
        self.generic_visit(node)
        if isinstance(node.value, ast.IfExp):
            ie = node.value
            a = ast.copy_location(ast.Return(value=ie.body), node)
            b = ast.copy_location(ast.Return(value=ie.orelse), node)
            return self.visit_If(ast.copy_location(ast.If(test=ie.test, body=[a], orelse=[b]), node), descend=False)
        return node

    def visit_While(self, node):
        self.generic_visit(node)
        node.test = truth_form(node.test)
        return node

    def visit_IfExp(self, node):
        self.generic_visit(node)
        node.test = truth_form(node.test)
        # a literal test (left behind when a helper's flag parameter is replaced by the constant it was called with)
        if isinstance(node.test, ast.Constant) and isinstance(node.test.value, bool):
            return node.body if node.test.value else node.orelse
        if isinstance(node.test, ast.UnaryOp) and isinstance(node.test.op, ast.Not) and isinstance(node.test.operand, ast.Constant) and isinstance(node.test.operand.value, bool):
            return node.orelse if node.test.operand.value else node.body
        return node

    def visit_For(self, node):
        node = self.generic_visit(node)
        if _is_keys(node.iter):
            node.iter = node.iter.func.value
        # for i, x in enumerate(XS): inside the body XS[i] is x (XS, i and x not re-bound there)
        it = node.iter
        if isinstance(it, ast.Call) and isinstance(it.func, ast.Name) and it.func.id == "enumerate" and len(it.args) == 1 and not it.keywords \
                and isinstance(node.target, ast.Tuple) and len(node.target.elts) == 2 and all(isinstance(e, ast.Name) for e in node.target.elts) \
                and isinstance(it.args[0], (ast.Name, ast.Attribute)):
            i, x = node.target.elts[0].id, node.target.elts[1].id
            xs = ast.dump(_as_load(it.args[0]))
            root = it.args[0]
            while isinstance(root, ast.Attribute):
                root = root.value
            rebound = {n.id for st in node.body for n in ast.walk(st) if isinstance(n, ast.Name) and isinstance(n.ctx, (ast.Store, ast.Del))}
            if isinstance(root, ast.Name) and not ({i, x, root.id} & rebound):
                class _R(ast.NodeTransformer):
                    def visit_Subscript(self_, n):
                        self_.generic_visit(n)
                        if isinstance(n.ctx, ast.Load) and isinstance(n.slice, ast.Name) and n.slice.id == i and ast.dump(_as_load(n.value)) == xs:
                            return ast.copy_location(ast.Name(id=x, ctx=ast.Load()), n)
                        return n
                node.body = [_R().visit(st) for st in node.body]
        return node

    def visit_comprehension(self, node):
        self.generic_visit(node)
        if _is_keys(node.iter):
            node.iter = node.iter.func.value
        node.ifs = [truth_form(t) for t in node.ifs]
        return node

    def visit_If(self, node, descend=True):
        if descend:
            self.generic_visit(node)
        node.test = truth_form(node.test)
        if isinstance(node.test, ast.Constant) and isinstance(node.test.value, bool):
            # `if True:` / `if False:` left behind by a flag parameter replaced by its constant argument
            return (node.body if node.test.value else node.orelse) or [ast.copy_location(ast.Pass(), node)]
        plain_else = node.orelse and not (len(node.orelse) == 1 and isinstance(node.orelse[0], ast.If))
        if isinstance(node.test, ast.UnaryOp) and isinstance(node.test.op, ast.Not) and plain_else:
            node.test, node.body, node.orelse = node.test.operand, node.orelse, node.body
        elif isinstance(node.test, ast.Compare) and len(node.test.ops) == 1 and plain_else:
            # canonical polarity of a two-way branch: the test is the "positive" comparison
            op = type(node.test.ops[0])
            c = node.test
            if op is ast.LtE:      # a <= b  ==  not (b < a)
                node.test = ast.copy_location(ast.Compare(left=c.comparators[0], ops=[ast.Lt()], comparators=[c.left]), c)
                node.body, node.orelse = node.orelse, node.body
            elif op in (ast.NotEq, ast.NotIn, ast.IsNot):
                pos = {ast.NotEq: ast.Eq, ast.NotIn: ast.In, ast.IsNot: ast.Is}[op]
                node.test = ast.copy_location(ast.Compare(left=c.left, ops=[pos()], comparators=c.comparators), c)
                node.body, node.orelse = node.orelse, node.body
        return node



class IndexThroughMap(ast.NodeTransformer):
    """tuple(f(x) for x in XS)[k] -> f(XS[k]);  tuple(f(x) for x in XS)[a:b] -> tuple(f(x) for x in XS[a:b]).
    NOT part of the canonical form: the rewrite is only right when XS is a sequence (for a set, the k-th element in
    iteration order is a hash-dependent pick that must stay visible).  A rule that has established that XS is ordered
    applies it to the expressions it compares."""

    def visit_Subscript(self, node):
        self.generic_visit(node)
        if not isinstance(node.ctx, ast.Load):
            return node
        v = node.value
        wrap = None
        if isinstance(v, ast.Call) and isinstance(v.func, ast.Name) and v.func.id in ("tuple", "list") and len(v.args) == 1 and not v.keywords:
            wrap, v = v, v.args[0]
        if isinstance(v, (ast.ListComp, ast.GeneratorExp)) and (wrap is not None or isinstance(v, ast.ListComp)) and len(v.generators) == 1:
            g = v.generators[0]
            if not g.ifs and not g.is_async and isinstance(g.target, ast.Name) and isinstance(g.iter, (ast.Name, ast.Attribute, ast.Subscript)):
                import copy
                if isinstance(node.slice, ast.Constant) and isinstance(node.slice.value, int):
                    src = ast.copy_location(ast.Subscript(value=copy.deepcopy(g.iter), slice=node.slice, ctx=ast.Load()), node)

                    class _S(ast.NodeTransformer):
                        def visit_Name(self_, n):
                            return copy.deepcopy(src) if n.id == g.target.id and isinstance(n.ctx, ast.Load) else n
                    return ast.copy_location(_S().visit(copy.deepcopy(v.elt)), node)
                if isinstance(node.slice, ast.Slice):
                    g.iter = ast.copy_location(ast.Subscript(value=g.iter, slice=node.slice, ctx=ast.Load()), node)
                    return wrap if wrap is not None else v
        return node

