"""Write / mutation / RNG effects per function, with locality of the written object."""
from __future__ import annotations

import ast
from typing import Dict, List, Optional, Set, Tuple

from . import astx
from .loader import Program, Func, Class

MUTATORS = {"append", "extend", "insert", "pop", "remove", "clear", "update", "sort", "add", "discard",
            "reverse", "setdefault", "popitem", "__setitem__", "__delitem__", "shuffle"}


class Write:
    def __init__(self, node: ast.AST, target: ast.AST, root: Optional[str], kind: str):
        self.node, self.target, self.root, self.kind = node, target, root, kind

    def describe(self) -> str:
        return f"{self.kind} {astx.u(self.target)}"


def root_name(e: ast.AST) -> Optional[str]:
    while isinstance(e, (ast.Attribute, ast.Subscript)):
        e = e.value
    if isinstance(e, ast.Call) and isinstance(e.func, ast.Attribute):
        return root_name(e.func.value)
    return e.id if isinstance(e, ast.Name) else None


def writes_in(fn: ast.AST) -> List[Write]:
    """Attribute / item stores and mutating method calls whose target is not a bare local name."""
    out: List[Write] = []
    for n in astx.walk_own(fn):
        if isinstance(n, (ast.Assign, ast.AugAssign, ast.AnnAssign, ast.Delete, ast.For, ast.With)):
            if isinstance(n, ast.Assign):
                targets = n.targets
            elif isinstance(n, ast.Delete):
                targets = n.targets
            elif isinstance(n, ast.For):
                targets = [n.target]
            elif isinstance(n, ast.With):
                targets = [i.optional_vars for i in n.items if i.optional_vars is not None]
            else:
                targets = [n.target]
            for t in targets:
                for sub in ast.walk(t):
                    if isinstance(sub, (ast.Attribute, ast.Subscript)) and isinstance(sub.ctx, (ast.Store, ast.Del)):
                        kind = "store" if not isinstance(n, ast.AugAssign) else "augmented store"
                        out.append(Write(n, sub, root_name(sub), kind))
        elif isinstance(n, ast.Call) and isinstance(n.func, ast.Attribute):
            if n.func.attr in MUTATORS and isinstance(n.func.value, (ast.Attribute, ast.Subscript)):
                out.append(Write(n, n.func.value, root_name(n.func.value), f"mutating call .{n.func.attr}() on"))
            # np.random.shuffle(self.x) / random.shuffle(self.x)
            if n.func.attr == "shuffle" and n.args and isinstance(n.args[0], (ast.Attribute, ast.Subscript)):
                out.append(Write(n, n.args[0], root_name(n.args[0]), "shuffle of"))
            if n.func.attr == "__setattr__" and n.args:
                out.append(Write(n, n.args[0], root_name(n.args[0]), "__setattr__ on"))
        elif isinstance(n, ast.Call) and isinstance(n.func, ast.Name) and n.func.id in ("setattr", "delattr") and n.args:
            out.append(Write(n, n.args[0], root_name(n.args[0]), n.func.id + " on"))
    return out


def _fresh_components(prog: Program, f: Func, call: ast.Call, arity: int, depth: int):
    """For a call of a method of the same class (self.m(...)) or of a package function: which slots of the returned tuple hold
    objects created in the callee's own activation (every return is a tuple display of that arity)?  None when unknown."""
    callee = None
    if isinstance(call.func, ast.Attribute) and astx.is_name(call.func.value, "self") and f.cls is not None:
        callee = f.cls.lookup(call.func.attr)
    else:
        q = prog.resolve_expr(f.module, call.func)
        callee = prog.functions.get(q) if q else None
    if callee is None or callee is f or not isinstance(callee.node, (ast.FunctionDef, ast.AsyncFunctionDef)):
        return None
    rets = [r for r in astx.walk_own(callee.node) if isinstance(r, ast.Return)]
    if not rets or not all(isinstance(r.value, ast.Tuple) and len(r.value.elts) == arity for r in rets):
        return None
    fr = fresh_locals(prog, callee, _depth=depth + 1)
    out = []
    for k in range(arity):
        ok = True
        for r in rets:
            e = r.value.elts[k]
            ok = ok and ((isinstance(e, ast.Name) and e.id in fr and e.id not in callee.params) or isinstance(e, (ast.Dict, ast.List, ast.Set, ast.DictComp, ast.ListComp, ast.SetComp)))
        out.append(ok)
    return out


def fresh_locals(prog: Program, f: Func, _depth: int = 0) -> Set[str]:
    """Locals that only ever denote objects created in this activation: every binding is a
    constructor call of a package class, a literal container/comprehension, or is derived
    (iteration / subscript / attribute) from another fresh local."""
    fn = f.node
    cand: Dict[str, List[Optional[ast.AST]]] = {}
    for n in astx.walk_own(fn):
        if isinstance(n, ast.Assign):
            for t in n.targets:
                if isinstance(t, ast.Name):
                    cand.setdefault(t.id, []).append(n.value)
                elif isinstance(t, ast.Tuple) and all(isinstance(e, ast.Name) for e in t.elts) and isinstance(n.value, ast.Call) and _depth < 1:
                    # a, b = self.helper(...): component k is fresh when the helper returns, in slot k, an object it created itself
                    comp = _fresh_components(prog, f, n.value, len(t.elts), _depth)
                    for k, e in enumerate(t.elts):
                        cand.setdefault(e.id, []).append(ast.Dict(keys=[], values=[]) if comp is not None and comp[k] else None)
                else:
                    for nm in astx.assigned_names(t):
                        cand.setdefault(nm, []).append(None)
        elif isinstance(n, ast.AnnAssign) and isinstance(n.target, ast.Name) and n.value is not None:
            cand.setdefault(n.target.id, []).append(n.value)
        elif isinstance(n, ast.AugAssign) and isinstance(n.target, ast.Name):
            cand.setdefault(n.target.id, []).append(None)
        elif isinstance(n, ast.For):
            if isinstance(n.target, ast.Name):
                cand.setdefault(n.target.id, []).append(ast.Subscript(value=n.iter, slice=ast.Constant(0), ctx=ast.Load()))
            else:
                for nm in astx.assigned_names(n.target):
                    cand.setdefault(nm, []).append(None)
    params = set(f.params)
    fresh: Set[str] = set()
    changed = True

    def is_fresh(e: Optional[ast.AST]) -> bool:
        if e is None:
            return False
        if isinstance(e, (ast.List, ast.Dict, ast.Set, ast.ListComp, ast.DictComp, ast.SetComp, ast.Tuple, ast.Constant)):
            return True
        if isinstance(e, ast.Call):
            q = prog.resolve_expr(f.module, e.func)
            if q and q in prog.classes:
                return True
            if isinstance(e.func, ast.Name) and e.func.id in ("list", "dict", "set", "tuple", "sorted", "frozenset"):
                return True
            # result of an external constructor / factory (pd.DataFrame, np.array, ...)
            if q and q.split(".")[0] not in ("votekit",) and not (isinstance(e.func, ast.Attribute) and root_name(e.func) == "self"):
                if q.split(".")[0] in f.module.imports.values() or any(q.startswith(v) for v in f.module.imports.values()):
                    return True
            # method call on a fresh local returns data derived from it (df.reindex(...), list.copy())
            if isinstance(e.func, ast.Attribute):
                r = root_name(e.func.value)
                if r is not None and r in fresh and r not in params:
                    return True
            return False
        if isinstance(e, (ast.Subscript, ast.Attribute)):
            r = root_name(e)
            return r is not None and r in fresh and r not in params
        if isinstance(e, ast.Name):
            return e.id in fresh and e.id not in params
        if isinstance(e, ast.BinOp):
            if isinstance(e.op, ast.Mult) and (isinstance(e.left, (ast.List, ast.Tuple)) or isinstance(e.right, (ast.List, ast.Tuple))):
                return True  # [x] * n builds a new list
            return is_fresh(e.left) and is_fresh(e.right)
        return False

    while changed:
        changed = False
        for nm, vals in cand.items():
            if nm in fresh or nm in params:
                continue
            fresh.add(nm)  # optimistic self-reference (x = x.method(...))
            if vals and all(is_fresh(v) for v in vals):
                changed = True
            else:
                fresh.discard(nm)
    return fresh


def nonlocal_writes(prog: Program, f: Func) -> List[Write]:
    fr = fresh_locals(prog, f)
    return [w for w in writes_in(f.node) if w.root is None or w.root not in fr]


def self_calls(f: Func) -> List[Tuple[str, ast.Call]]:
    out = []
    for c in astx.calls_in(f.node):
        if isinstance(c.func, ast.Attribute) and astx.is_name(c.func.value, "self"):
            out.append((c.func.attr, c))
    return out


def dispatch(prog: Program, cls: Class, name: str) -> List[Func]:
    """Virtual dispatch of self.name() from a method of cls: the definition seen by cls and every
    override in subclasses of cls."""
    out = []
    m = cls.lookup(name)
    if m is not None:
        out.append(m)
    for sub in prog.subclasses(cls.name, strict=True):
        if name in sub.methods and sub.methods[name] not in out:
            out.append(sub.methods[name])
    return out


RNG_ROOTS = ("random.", "numpy.random.", "numpy.random", "scipy.stats")


def rng_calls(prog: Program, f: Func) -> List[ast.Call]:
    out = []
    for c in astx.calls_in(f.node, own_only=False) if not isinstance(f.node, ast.Lambda) else []:
        pass
    for n in astx.walk_all(f.node):
        if isinstance(n, ast.Call):
            q = prog.resolve_expr(f.module, n.func)
            if q and (q.startswith("random.") or q.startswith("numpy.random.") or q == "numpy.random.default_rng"
                      or q.startswith("secrets.")):
                out.append(n)
            elif isinstance(n.func, ast.Attribute) and isinstance(n.func.value, ast.Call):
                q2 = prog.resolve_expr(f.module, n.func.value.func)
                if q2 and q2.endswith("default_rng"):
                    out.append(n)
    return out


def name_mutations(fn: ast.AST) -> List[Tuple[ast.AST, str, str]]:
    """In-place mutations whose receiver is a bare name: x.append(..), x[i] = .., x[i] += .., del x[i],
    random.shuffle(x).  Returns (node, name, description)."""
    out = []
    for n in astx.walk_own(fn):
        if isinstance(n, ast.Call) and isinstance(n.func, ast.Attribute) and n.func.attr in MUTATORS and isinstance(n.func.value, ast.Name):
            out.append((n, n.func.value.id, f"{n.func.value.id}.{n.func.attr}(...)"))
        elif isinstance(n, ast.Call) and isinstance(n.func, ast.Attribute) and n.func.attr == "shuffle" and n.args and isinstance(n.args[0], ast.Name):
            out.append((n, n.args[0].id, f"shuffle({n.args[0].id})"))
        elif isinstance(n, (ast.Assign, ast.AugAssign, ast.Delete)):
            tg = n.targets if isinstance(n, (ast.Assign, ast.Delete)) else [n.target]
            for t in tg:
                for sub in ast.walk(t):
                    if isinstance(sub, ast.Subscript) and isinstance(sub.ctx, (ast.Store, ast.Del)) and isinstance(sub.value, ast.Name):
                        out.append((n, sub.value.id, f"store into {sub.value.id}[...]"))
    return out
