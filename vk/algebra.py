"""Normal forms: rational functions over opaque atoms, floor, linear comparisons, boolean guards.

This is expression canonicalisation (rewriting to a normal form and comparing normal forms);
no paths or values are explored and no solver is involved.
"""
from __future__ import annotations

import ast
import itertools
from fractions import Fraction
from typing import Callable, Dict, FrozenSet, Iterable, List, Optional, Sequence, Tuple

from . import astx

Mono = Tuple[Tuple[str, int], ...]  # sorted ((atom, exponent), ...)


class NotClosedForm(Exception):
    """Expression is outside the algebra (loop-carried value, unknown helper, ...)."""


class Poly:
    __slots__ = ("t",)

    def __init__(self, terms: Optional[Dict[Mono, Fraction]] = None):
        self.t: Dict[Mono, Fraction] = {k: v for k, v in (terms or {}).items() if v != 0}

    @staticmethod
    def const(c) -> "Poly":
        return Poly({(): Fraction(c)})

    @staticmethod
    def atom(a: str) -> "Poly":
        return Poly({((a, 1),): Fraction(1)})

    def __add__(self, o: "Poly") -> "Poly":
        t = dict(self.t)
        for k, v in o.t.items():
            t[k] = t.get(k, 0) + v
        return Poly(t)

    def __neg__(self) -> "Poly":
        return Poly({k: -v for k, v in self.t.items()})

    def __sub__(self, o: "Poly") -> "Poly":
        return self + (-o)

    def __mul__(self, o: "Poly") -> "Poly":
        t: Dict[Mono, Fraction] = {}
        for k1, v1 in self.t.items():
            for k2, v2 in o.t.items():
                d = dict(k1)
                for a, e in k2:
                    d[a] = d.get(a, 0) + e
                k = tuple(sorted((a, e) for a, e in d.items() if e != 0))
                t[k] = t.get(k, 0) + v1 * v2
        return Poly(t)

    def scale(self, c) -> "Poly":
        return Poly({k: v * Fraction(c) for k, v in self.t.items()})

    def is_zero(self) -> bool:
        return not self.t

    def is_const(self) -> bool:
        return all(k == () for k in self.t)

    def const_value(self) -> Fraction:
        return self.t.get((), Fraction(0))

    def __eq__(self, o) -> bool:
        return isinstance(o, Poly) and self.t == o.t

    def __hash__(self):
        return hash(frozenset(self.t.items()))

    def atoms(self) -> FrozenSet[str]:
        return frozenset(a for k in self.t for a, _ in k)

    def content(self) -> Fraction:
        import math
        if not self.t:
            return Fraction(1)
        nums = [abs(v.numerator) for v in self.t.values()]
        dens = [v.denominator for v in self.t.values()]
        g = 0
        for n in nums:
            g = math.gcd(g, n)
        l = 1
        for d in dens:
            l = l * d // math.gcd(l, d)
        return Fraction(g, l) if g else Fraction(1)

    def lead(self) -> Tuple[Mono, Fraction]:
        k = sorted(self.t.keys(), key=lambda m: (-(sum(e for _, e in m)), m))[0]
        return k, self.t[k]

    def key(self) -> str:
        if not self.t:
            return "0"
        parts = []
        for k in sorted(self.t.keys(), key=lambda m: (-(sum(e for _, e in m)), m)):
            v = self.t[k]
            mono = "*".join(a if e == 1 else f"{a}^{e}" for a, e in k)
            if not mono:
                parts.append(str(v))
            elif v == 1:
                parts.append(mono)
            elif v == -1:
                parts.append("-" + mono)
            else:
                parts.append(f"{v}*{mono}")
        return " + ".join(parts).replace("+ -", "- ")

    __repr__ = key


class Rat:
    __slots__ = ("n", "d")

    def __init__(self, n: Poly, d: Optional[Poly] = None):
        self.n = n
        self.d = d if d is not None else Poly.const(1)
        if self.d.is_zero():
            raise NotClosedForm("division by literal zero")

    @staticmethod
    def const(c) -> "Rat":
        return Rat(Poly.const(c))

    @staticmethod
    def atom(a: str) -> "Rat":
        return Rat(Poly.atom(a))

    def __add__(self, o):
        if self.d == o.d:
            return Rat(self.n + o.n, self.d)
        return Rat(self.n * o.d + o.n * self.d, self.d * o.d)

    def __neg__(self):
        return Rat(-self.n, self.d)

    def __sub__(self, o):
        return self + (-o)

    def __mul__(self, o):
        return Rat(self.n * o.n, self.d * o.d)

    def __truediv__(self, o):
        if o.n.is_zero():
            raise NotClosedForm("division by zero form")
        return Rat(self.n * o.d, self.d * o.n)

    def __pow__(self, k: int):
        if k < 0:
            return Rat.const(1) / (self ** (-k))
        r = Rat.const(1)
        for _ in range(k):
            r = r * self
        return r

    def equals(self, o: "Rat") -> bool:
        return (self.n * o.d) == (o.n * self.d)

    def is_zero(self) -> bool:
        return self.n.is_zero()

    def normalised(self) -> "Rat":
        """Divide out constant content and make the denominator's leading coefficient positive;
        cancel a denominator that divides every monomial trivially (constant denominators)."""
        n, d = self.n, self.d
        if n.is_zero():
            return Rat(Poly(), Poly.const(1))
        # cancel identical polynomials / constant multiples
        if d.is_const():
            return Rat(n.scale(1 / d.const_value()), Poly.const(1))
        # if n == c*d
        c = _const_ratio(n, d)
        if c is not None:
            return Rat(Poly.const(c), Poly.const(1))
        # cancel common monomial factors
        cm = _common_monomial(n, d)
        if cm:
            n = _div_mono(n, cm)
            d = _div_mono(d, cm)
        # try exact polynomial division when d is a single-term or n has d as an obvious factor
        q = _try_divide(n, d)
        if q is not None:
            return Rat(q, Poly.const(1))
        cn, cd = n.content(), d.content()
        _, ld = d.lead()
        sign = -1 if ld < 0 else 1
        n = n.scale(Fraction(sign) / cd)
        d = d.scale(Fraction(sign) / cd)
        return Rat(n, d)

    def key(self) -> str:
        r = self.normalised()
        if r.d.is_const() and r.d.const_value() == 1:
            return r.n.key()
        return f"({r.n.key()})/({r.d.key()})"

    def atoms(self):
        return self.n.atoms() | self.d.atoms()

    __repr__ = key


def _const_ratio(n: Poly, d: Poly) -> Optional[Fraction]:
    if set(n.t.keys()) != set(d.t.keys()):
        return None
    c = None
    for k, v in n.t.items():
        r = v / d.t[k]
        if c is None:
            c = r
        elif c != r:
            return None
    return c


def _common_monomial(n: Poly, d: Poly) -> Dict[str, int]:
    cm: Optional[Dict[str, int]] = None
    for p in (n, d):
        for k in p.t:
            dk = dict(k)
            if cm is None:
                cm = {a: e for a, e in dk.items() if e > 0}
            else:
                cm = {a: min(e, dk.get(a, 0)) for a, e in cm.items() if dk.get(a, 0) > 0}
    return {a: e for a, e in (cm or {}).items() if e > 0}


def _div_mono(p: Poly, cm: Dict[str, int]) -> Poly:
    t = {}
    for k, v in p.t.items():
        dk = dict(k)
        for a, e in cm.items():
            dk[a] = dk.get(a, 0) - e
        t[tuple(sorted((a, e) for a, e in dk.items() if e != 0))] = v
    return Poly(t)


def _try_divide(n: Poly, d: Poly) -> Optional[Poly]:
    """Exact division n/d by repeated leading-term elimination (bounded)."""
    if d.is_zero():
        return None
    q = Poly()
    r = Poly(dict(n.t))
    dk, dv = d.lead()
    for _ in range(24):
        if r.is_zero():
            return q
        # find a term of r divisible by the leading monomial of d
        found = None
        for rk in sorted(r.t.keys(), key=lambda m: (-(sum(e for _, e in m)), m)):
            rd = dict(rk)
            ok = all(rd.get(a, 0) >= e for a, e in dk)
            if ok:
                found = rk
                break
        if found is None:
            return None
        rd = dict(found)
        for a, e in dk:
            rd[a] = rd[a] - e
        mk = tuple(sorted((a, e) for a, e in rd.items() if e != 0))
        term = Poly({mk: r.t[found] / dv})
        q = q + term
        r = r - term * d
    return None


# ----------------------------------------------------------------------------- expression -> Rat

Rename = Callable[[ast.AST], Optional[str]]


class Normalizer:
    """Maps expressions of one function to normal forms.

    rename(expr) -> role symbol or None: tried on every sub-expression first (roles, §3.7).
    inline: local names with exactly one plain definition in the function are replaced by it.
    extra_env: explicit {name: expr} substitutions (e.g. tuple-unpacked components).
    """

    def __init__(self, func_node: Optional[ast.AST] = None, rename: Optional[Rename] = None,
                 inline: bool = True, extra_env: Optional[Dict[str, ast.AST]] = None,
                 int_atoms: Optional[Callable[[str], bool]] = None, no_inline: Iterable[str] = ()):
        self.fn = func_node
        self.rename = rename or (lambda e: None)
        self.inline = inline
        self.env = dict(extra_env or {})
        self.no_inline = set(no_inline)
        self._stale: set = set()
        self._fresh: set = set()
        self.int_atoms = int_atoms or (lambda a: a.startswith('len('))
        self._stack: List[str] = []
        self._params = set()
        if func_node is not None and hasattr(func_node, "args"):
            a = func_node.args
            self._params = {x.arg for x in a.posonlyargs + a.args + a.kwonlyargs}

    # -- names
    def _lookup(self, name: str) -> Optional[ast.AST]:
        if name in self.no_inline:
            return None
        if name in self.env:
            return self.env[name]
        if not self.inline or self.fn is None or name in self._params:
            return None
        if name in self._stack:
            return None
        if name in self._stale:
            return None
        v = astx.unique_def(self.fn, name)
        if v is not None and name not in self._fresh:
            # read a single-assignment local through only if nothing it is computed from is re-bound after its
            # assignment (a temporary taken before an update is NOT the updated value)
            ds = astx.defs_of(self.fn, name)
            line = getattr(ds[0][0], "lineno", 0) if ds else 0
            reads = astx.free_names(v) - {name}
            last_use = max((getattr(x, "lineno", 0) for x in astx.walk_own(self.fn) if isinstance(x, ast.Name) and x.id == name and isinstance(x.ctx, ast.Load)), default=line)
            later = any(nm in reads and line < ln <= last_use for nm, ln in astx.own_stores(self.fn))
            if later:
                self._stale.add(name)
                return None
            self._fresh.add(name)
        return v

    # -- canonical key of an arbitrary expression (atoms)
    def key(self, e: ast.AST) -> str:
        r = self.rename(e)
        if r is not None:
            return r
        if isinstance(e, ast.Name):
            v = self._lookup(e.id)
            if v is not None:
                self._stack.append(e.id)
                try:
                    return self.key(v)
                finally:
                    self._stack.pop()
            return e.id
        if isinstance(e, ast.Constant):
            return repr(e.value)
        if isinstance(e, ast.Attribute):
            return f"{self.key(e.value)}.{e.attr}"
        if isinstance(e, ast.Subscript):
            return f"{self.key(e.value)}[{self._slice_key(e.slice)}]"
        if isinstance(e, ast.BinOp) and isinstance(e.op, ast.Add) and (self._is_sequence(e.left) or self._is_sequence(e.right)):
            return f"{self.key(e.left)} ++ {self.key(e.right)}"  # concatenation is not commutative
        if isinstance(e, (ast.BinOp, ast.UnaryOp)) and self._is_arith(e):
            try:
                return self.rat(e).key()
            except NotClosedForm:
                pass
        if isinstance(e, ast.Call):
            fn = self.key(e.func) if not isinstance(e.func, ast.Name) else e.func.id
            if fn in ("Fraction", "float") and len(e.args) == 1 and not e.keywords:
                return self.key(e.args[0])
            if fn == "cast" and len(e.args) == 2:
                return self.key(e.args[1])
            if fn in ("int", "math.floor", "floor") and len(e.args) == 1:
                try:
                    return self.rat(e).key()
                except NotClosedForm:
                    pass
            if fn in ("tuple", "list") and len(e.args) == 1 and not e.keywords:
                return self.key(e.args[0])
            if fn == "len" and len(e.args) == 1 and not e.keywords:
                inner = self.key(e.args[0])
                if inner.endswith(".keys()"):
                    inner = inner[: -len(".keys()")]  # len(d.keys()) == len(d)
                return f"len({inner})"
            if fn in ("frozenset", "set") and len(e.args) == 1 and isinstance(e.args[0], (ast.Set, ast.List, ast.Tuple)):
                return "{" + ", ".join(sorted(self.key(x) for x in e.args[0].elts)) + "}"
            args = [self.key(a) for a in e.args]
            args += [f"{k.arg}={self.key(k.value)}" for k in sorted(e.keywords, key=lambda k: k.arg or "")]
            return f"{fn}({', '.join(args)})"
        if isinstance(e, (ast.Tuple, ast.List)):
            return "[" + ", ".join(self.key(x) for x in e.elts) + "]"
        if isinstance(e, ast.Set):
            return "{" + ", ".join(sorted(self.key(x) for x in e.elts)) + "}"
        if isinstance(e, (ast.ListComp, ast.GeneratorExp, ast.SetComp)):
            return self._comp_key(e)
        if isinstance(e, (ast.Compare, ast.BoolOp)) or (isinstance(e, ast.UnaryOp) and isinstance(e.op, ast.Not)):
            return bool_key(self.guard(e))
        if isinstance(e, ast.Starred):
            return "*" + self.key(e.value)
        if isinstance(e, ast.IfExp):
            return f"({self.key(e.body)} if {bool_key(self.guard(e.test))} else {self.key(e.orelse)})"
        if isinstance(e, ast.Slice):
            return self._slice_key(e)
        return astx.u(e)

    def _slice_key(self, s: ast.AST) -> str:
        if isinstance(s, ast.Slice):
            def part(x):
                if x is None:
                    return ""
                try:
                    return self.rat(x).key()
                except NotClosedForm:
                    return self.key(x)
            lo, hi, st = part(s.lower), part(s.upper), part(s.step)
            if lo == "0":
                lo = ""
            return f"{lo}:{hi}" + (f":{st}" if st else "")
        try:
            return self.rat(s).key()
        except NotClosedForm:
            return self.key(s)

    def _comp_key(self, e) -> str:
        # rename bound variables to _b0, _b1, ... in order of binding
        sub = {}
        gens = []
        saved = dict(self.env)
        saved_ni = set(self.no_inline)
        try:
            for g in e.generators:
                itk = self.key(g.iter)
                for nm in astx.assigned_names(g.target):
                    sub[nm] = f"_b{len(sub)}"
                    self.env[nm] = ast.Name(id=sub[nm], ctx=ast.Load())
                    self.no_inline.add(sub[nm])
                tk = self.key(g.target) if not isinstance(g.target, ast.Name) else sub[g.target.id]
                ifs = [bool_key(self.guard(t)) for t in g.ifs]
                gens.append(f"for {tk} in {itk}" + "".join(f" if {i}" for i in ifs))
            elt = self.key(e.elt)
        finally:
            self.env = saved
            self.no_inline = saved_ni
        br = {"ListComp": "[]", "GeneratorExp": "()", "SetComp": "{}"}[type(e).__name__]
        return f"{br[0]}{elt} {' '.join(gens)}{br[1]}"

    @staticmethod
    def _is_sequence(e) -> bool:
        if isinstance(e, (ast.List, ast.Tuple, ast.ListComp)):
            return True
        if isinstance(e, ast.Subscript) and isinstance(e.slice, ast.Slice):
            return True
        if isinstance(e, ast.Call) and isinstance(e.func, ast.Name) and e.func.id in ("list", "tuple", "sorted"):
            return True
        if isinstance(e, ast.BinOp) and isinstance(e.op, ast.Add):
            return Normalizer._is_sequence(e.left) or Normalizer._is_sequence(e.right)
        if isinstance(e, ast.BinOp) and isinstance(e.op, ast.Mult):
            return isinstance(e.left, (ast.List, ast.Tuple)) or isinstance(e.right, (ast.List, ast.Tuple))
        return False

    @staticmethod
    def _is_arith(e) -> bool:
        if isinstance(e, ast.UnaryOp):
            return isinstance(e.op, (ast.USub, ast.UAdd))
        return isinstance(e.op, (ast.Add, ast.Sub, ast.Mult, ast.Div, ast.Pow, ast.FloorDiv))

    # -- rational function
    def rat(self, e: ast.AST) -> Rat:
        r = self.rename(e)
        if r is not None:
            return Rat.atom(r)
        if isinstance(e, ast.Constant):
            if isinstance(e.value, bool) or not isinstance(e.value, (int, float)):
                raise NotClosedForm(f"non-numeric constant {e.value!r}")
            return Rat.const(Fraction(str(e.value)) if isinstance(e.value, float) else Fraction(e.value))
        if isinstance(e, ast.Name):
            v = self._lookup(e.id)
            if v is not None:
                self._stack.append(e.id)
                try:
                    return self.rat(v)
                finally:
                    self._stack.pop()
            return Rat.atom(e.id)
        if isinstance(e, ast.UnaryOp):
            if isinstance(e.op, ast.USub):
                return -self.rat(e.operand)
            if isinstance(e.op, ast.UAdd):
                return self.rat(e.operand)
            raise NotClosedForm(astx.u(e))
        if isinstance(e, ast.BinOp):
            if isinstance(e.op, ast.Add):
                return self.rat(e.left) + self.rat(e.right)
            if isinstance(e.op, ast.Sub):
                return self.rat(e.left) - self.rat(e.right)
            if isinstance(e.op, ast.Mult):
                return self.rat(e.left) * self.rat(e.right)
            if isinstance(e.op, ast.Div):
                return self.rat(e.left) / self.rat(e.right)
            if isinstance(e.op, ast.FloorDiv):
                return self._floor(self.rat(e.left) / self.rat(e.right))
            if isinstance(e.op, ast.Pow):
                base = self.rat(e.left)
                try:
                    ex = self.rat(e.right)
                except NotClosedForm:
                    raise
                if ex.d.is_const() and ex.n.is_const():
                    k = ex.n.const_value() / ex.d.const_value()
                    if k.denominator == 1 and abs(k) <= 8:
                        return base ** int(k)
                return Rat.atom(f"pow({base.key()}, {ex.key()})")
            raise NotClosedForm(astx.u(e))
        if isinstance(e, ast.Call):
            fn = astx.u(e.func)
            if fn in ("Fraction", "float") and len(e.args) == 1 and not e.keywords:
                return self.rat(e.args[0])
            if fn == "Fraction" and len(e.args) == 2:
                return self.rat(e.args[0]) / self.rat(e.args[1])
            if fn == "cast" and len(e.args) == 2:
                return self.rat(e.args[1])
            if fn in ("int", "math.floor", "floor") and len(e.args) == 1:
                return self._floor(self.rat(e.args[0]))
            if fn == "abs" and len(e.args) == 1:
                inner = self.rat(e.args[0]).normalised()
                # abs is even: canonicalise sign of the argument
                alt = (-inner).normalised()
                k = min(inner.key(), alt.key())
                return Rat.atom(f"abs({k})")
            return Rat.atom(self.key(e))
        if isinstance(e, (ast.Attribute, ast.Subscript)):
            return Rat.atom(self.key(e))
        if isinstance(e, ast.IfExp):
            return Rat.atom(self.key(e))
        raise NotClosedForm(astx.u(e))

    def _floor(self, r: Rat) -> Rat:
        r = r.normalised()
        if r.d.is_const() and r.n.is_const():
            import math
            return Rat.const(math.floor(r.n.const_value() / r.d.const_value()))
        # pull out the integer constant k that minimises the size of the numerator
        best = None
        for k in range(-3, 4):
            cand = (r - Rat.const(k)).normalised()
            size = (len(cand.n.t), abs(k))
            if best is None or size < best[0]:
                best = (size, k, cand)
        _, k, frac = best
        # floor of an integer-valued polynomial is itself
        if frac.d.is_const() and all(self.int_atoms(a) for a in frac.n.atoms()) and all(
            v.denominator == 1 for v in frac.n.scale(1 / frac.d.const_value()).t.values()
        ):
            return frac + Rat.const(k)
        return Rat.atom(f"floor({frac.key()})") + Rat.const(k)

    # -- comparisons and guards --------------------------------------------------------------
    def guard(self, e: ast.AST, polarity: bool = True):
        """Boolean normal form: nested ('and'|'or', [..]) / ('not', x) / ('atom', key)."""
        g = self._guard(e)
        return g if polarity else neg(g)

    def conj(self, conds: Sequence[Tuple[ast.AST, bool]]):
        return simplify(("and", [self.guard(t, p) for t, p in conds]))

    def _guard(self, e: ast.AST):
        if isinstance(e, ast.BoolOp):
            op = "and" if isinstance(e.op, ast.And) else "or"
            return (op, [self._guard(v) for v in e.values])
        if isinstance(e, ast.UnaryOp) and isinstance(e.op, ast.Not):
            return neg(self._guard(e.operand))
        if isinstance(e, ast.Compare):
            parts = []
            left = e.left
            for op, right in zip(e.ops, e.comparators):
                parts.append(self._cmp(left, op, right))
                left = right
            return parts[0] if len(parts) == 1 else ("and", parts)
        if isinstance(e, ast.Constant) and isinstance(e.value, bool):
            return ("const", e.value)
        if isinstance(e, ast.Name):
            v = self._lookup(e.id)
            if v is not None and isinstance(v, (ast.Compare, ast.BoolOp)) or (
                v is not None and isinstance(v, ast.UnaryOp) and isinstance(v.op, ast.Not)
            ):
                self._stack.append(e.id)
                try:
                    return self._guard(v)
                finally:
                    self._stack.pop()
        if isinstance(e, ast.Call) and isinstance(e.func, ast.Name) and e.func.id in ("any", "all") and len(e.args) == 1:
            a = e.args[0]
            if isinstance(a, (ast.GeneratorExp, ast.ListComp)):
                if e.func.id == "all":
                    inv = type(a)(elt=ast.UnaryOp(op=ast.Not(), operand=a.elt), generators=a.generators)
                    return neg(("atom", "any" + self._comp_key(_as_gen(_values_view(inv)))))
                return ("atom", "any" + self._comp_key(_as_gen(_values_view(a))))
        # a filtered list is non-empty iff some item passes the filter: truthy([x for x in XS if C]) == any(C for x in XS)
        lc = e
        if isinstance(lc, ast.Call) and astx.u(lc.func) == "len" and len(lc.args) == 1:
            lc = lc.args[0]
        if isinstance(lc, ast.Name):
            v = self._lookup(lc.id)
            lc = v if isinstance(v, (ast.ListComp, ast.SetComp)) else lc
        if isinstance(lc, (ast.ListComp, ast.SetComp, ast.GeneratorExp)) and len(lc.generators) == 1 and lc.generators[0].ifs and not isinstance(e, ast.GeneratorExp):
            g = lc.generators[0]
            cond = g.ifs[0] if len(g.ifs) == 1 else ast.BoolOp(op=ast.And(), values=list(g.ifs))
            gen = ast.GeneratorExp(elt=cond, generators=[ast.comprehension(target=g.target, iter=g.iter, ifs=[], is_async=0)])
            return ("atom", "any" + self._comp_key(_as_gen(_values_view(gen))))
        # truthiness; len(x) truthiness == truthiness of x for sized containers
        if isinstance(e, ast.Call) and astx.u(e.func) == "len" and len(e.args) == 1:
            return ("atom", f"truthy({self.key(e.args[0])})")
        if isinstance(e, ast.Call) and astx.u(e.func) == "bool" and len(e.args) == 1:
            return self._guard(e.args[0])
        return ("atom", f"truthy({self.key(e)})")

    def _cmp(self, left: ast.AST, op: ast.cmpop, right: ast.AST):
        if isinstance(op, (ast.Is, ast.IsNot)):
            if astx.is_const(right, None) or astx.is_const(left, None):
                other = left if astx.is_const(right, None) else right
                a = ("atom", f"isnone({self.key(other)})")
            else:
                ks = sorted([self.key(left), self.key(right)])
                a = ("atom", f"is({ks[0]}, {ks[1]})")
            return a if isinstance(op, ast.Is) else neg(a)
        if isinstance(op, (ast.In, ast.NotIn)):
            a = ("atom", f"in({self.key(left)}, {self.key(right)})")
            return a if isinstance(op, ast.In) else neg(a)
        try:
            if isinstance(op, (ast.Eq, ast.NotEq)) and not (self._looks_numeric(left) or self._looks_numeric(right)):
                d = None  # equality of non-arithmetic values (names, sets, strings): keep symbolic
            else:
                d = (self.rat(left) - self.rat(right)).normalised()
        except NotClosedForm:
            d = None
        if d is None or not d.d.is_const():
            # non-arithmetic comparison: keep symbolic
            kl, kr = self.key(left), self.key(right)
            if isinstance(op, (ast.Eq, ast.NotEq)):
                ks = sorted([kl, kr])
                a = ("atom", f"eq({ks[0]}, {ks[1]})")
                return a if isinstance(op, ast.Eq) else neg(a)
            sym = {ast.Lt: "lt", ast.LtE: "le", ast.Gt: "gt", ast.GtE: "ge"}[type(op)]
            # canonicalise to ge / le with operand order as written
            if sym == "lt":
                return neg(("atom", f"ge({kl}, {kr})"))
            if sym == "gt":
                return neg(("atom", f"ge({kr}, {kl})"))
            if sym == "le":
                return ("atom", f"ge({kr}, {kl})")
            return ("atom", f"ge({kl}, {kr})")
        p = d.n.scale(1 / d.d.const_value())
        return _len_truthiness(self._cmp_poly(p, type(op)))

    def _looks_numeric(self, e: ast.AST, depth: int = 0) -> bool:
        if isinstance(e, ast.Constant):
            return isinstance(e.value, (int, float)) and not isinstance(e.value, bool)
        if isinstance(e, ast.BinOp):
            return self._is_arith(e)
        if isinstance(e, ast.UnaryOp):
            return isinstance(e.op, (ast.USub, ast.UAdd))
        if isinstance(e, ast.Call):
            return astx.u(e.func) in ("len", "int", "sum", "abs", "round", "float", "Fraction", "min", "max", "math.floor")
        if isinstance(e, ast.Name) and depth < 3:
            r = self.rename(e)
            if r is not None:
                return False
            v = self._lookup(e.id)
            if v is not None:
                return self._looks_numeric(v, depth + 1)
        return False

    def _cmp_poly(self, p: Poly, op) -> tuple:
        """p op 0  ->  canonical atom over Q (no constant term, leading coeff positive)."""
        c = -p.const_value()
        q = Poly({k: v for k, v in p.t.items() if k != ()})
        if q.is_zero():
            val = {ast.Lt: 0 < c, ast.LtE: 0 <= c, ast.Gt: 0 > c, ast.GtE: 0 >= c, ast.Eq: c == 0, ast.NotEq: c != 0}[op]
            return ("const", bool(val))
        _, lv = q.lead()
        if lv < 0:
            q, c = -q, -c
            op = {ast.Lt: ast.Gt, ast.LtE: ast.GtE, ast.Gt: ast.Lt, ast.GtE: ast.LtE}.get(op, op)
        # scale so that the content is 1 (positive scaling keeps the operator)
        s = q.content()
        q, c = q.scale(1 / s), c / s
        is_int = all(self.int_atoms(a) for a in q.atoms()) and all(v.denominator == 1 for v in q.t.values())
        qk = q.key()
        if op is ast.Eq:
            return ("atom", f"eq({qk}, {c})")
        if op is ast.NotEq:
            return neg(("atom", f"eq({qk}, {c})"))
        if is_int:
            import math
            # everything to  Q >= k
            if op is ast.GtE:
                return ("atom", f"ge({qk}, {math.ceil(c)})")
            if op is ast.Gt:
                return ("atom", f"ge({qk}, {math.floor(c) + 1})")
            if op is ast.Lt:
                return neg(("atom", f"ge({qk}, {math.ceil(c)})"))
            if op is ast.LtE:
                return neg(("atom", f"ge({qk}, {math.floor(c) + 1})"))
        if op is ast.GtE:
            return ("atom", f"ge({qk}, {c})")
        if op is ast.Lt:
            return neg(("atom", f"ge({qk}, {c})"))
        if op is ast.LtE:
            return ("atom", f"le({qk}, {c})")
        if op is ast.Gt:
            return neg(("atom", f"le({qk}, {c})"))
        raise NotClosedForm(f"operator {op}")


_LEN_GE1 = __import__("re").compile(r"ge\(len\((.*)\), 1\)$")
_LEN_EQ0 = __import__("re").compile(r"eq\(len\((.*)\), 0\)$")


def _balanced(t: str) -> bool:
    d = 0
    for ch in t:
        d += ch in "([{"
        d -= ch in ")]}"
        if d < 0:
            return False
    return d == 0


def _len_truthiness(g):
    """len(X) >= 1  <=>  X is truthy ;  len(X) == 0  <=>  not X   (sized containers)."""
    if g[0] == "not":
        return neg(_len_truthiness(g[1]))
    if g[0] == "atom":
        m = _LEN_GE1.match(g[1])
        if m and _balanced(m.group(1)):
            return ("atom", f"truthy({m.group(1)})")
        m = _LEN_EQ0.match(g[1])
        if m and _balanced(m.group(1)):
            return neg(("atom", f"truthy({m.group(1)})"))
    return g


def _as_gen(c):
    return ast.GeneratorExp(elt=c.elt, generators=c.generators)


# ----------------------------------------------------------------------------- boolean structure

def neg(g):
    if g[0] == "not":
        return g[1]
    if g[0] == "const":
        return ("const", not g[1])
    return ("not", g)


def simplify(g):
    if g[0] in ("and", "or"):
        items = [simplify(x) for x in g[1]]
        flat = []
        for it in items:
            if it[0] == g[0]:
                flat.extend(it[1])
            else:
                flat.append(it)
        unit = g[0] == "and"
        out = []
        for it in flat:
            if it[0] == "const":
                if it[1] == unit:
                    continue
                return ("const", not unit)
            if it not in out:
                out.append(it)
        if not out:
            return ("const", unit)
        if len(out) == 1:
            return out[0]
        return (g[0], out)
    if g[0] == "not":
        inner = simplify(g[1])
        return neg(inner)
    return g


def atoms_of(g) -> List[str]:
    if g[0] == "atom":
        return [g[1]]
    if g[0] == "const":
        return []
    if g[0] == "not":
        return atoms_of(g[1])
    out = []
    for x in g[1]:
        for a in atoms_of(x):
            if a not in out:
                out.append(a)
    return out


def evaluate(g, val: Dict[str, bool]) -> bool:
    if g[0] == "atom":
        return val[g[1]]
    if g[0] == "const":
        return g[1]
    if g[0] == "not":
        return not evaluate(g[1], val)
    if g[0] == "and":
        return all(evaluate(x, val) for x in g[1])
    return any(evaluate(x, val) for x in g[1])


def _tables(a, b, limit=12):
    at = sorted(set(atoms_of(a)) | set(atoms_of(b)))
    if len(at) > limit:
        raise NotClosedForm(f"guard with {len(at)} atoms")
    for bits in itertools.product([False, True], repeat=len(at)):
        val = dict(zip(at, bits))
        yield val, evaluate(a, val), evaluate(b, val)


def equivalent(a, b) -> bool:
    """Propositional equivalence treating distinct atoms as independent."""
    return all(x == y for _, x, y in _tables(a, b))


def implies(a, b) -> bool:
    return all((not x) or y for _, x, y in _tables(a, b))


def satisfiable(a) -> bool:
    return any(x for _, x, _ in _tables(a, ("const", True)))


def bool_key(g) -> str:
    g = simplify(g)
    if g[0] == "atom":
        return g[1]
    if g[0] == "const":
        return str(g[1])
    if g[0] == "not":
        return f"not {bool_key(g[1])}"
    return "(" + f" {g[0]} ".join(sorted(bool_key(x) for x in g[1])) + ")"


def _values_view(gen):
    """`... for k, v in D.items()` in which k is not used is `... for v in D.values()`."""
    import copy
    if len(gen.generators) != 1:
        return gen
    g = gen.generators[0]
    if isinstance(g.target, ast.Tuple) and len(g.target.elts) == 2 and all(isinstance(x, ast.Name) for x in g.target.elts) and isinstance(g.iter, ast.Call) \
            and isinstance(g.iter.func, ast.Attribute) and g.iter.func.attr == "items" and not g.iter.args:
        k = g.target.elts[0].id
        used = any(isinstance(n, ast.Name) and n.id == k for part in [gen.elt] + list(g.ifs) for n in ast.walk(part))
        if not used:
            ng = copy.deepcopy(gen)
            ng.generators[0].target = ast.Name(id=g.target.elts[1].id, ctx=ast.Store())
            ng.generators[0].iter = ast.Call(func=ast.Attribute(value=copy.deepcopy(g.iter.func.value), attr="values", ctx=ast.Load()), args=[], keywords=[])
            return ng
    return gen


def literals(g) -> set:
    """Literals that certainly hold when the (conjunctive) guard holds: 'atom' / 'not atom'."""
    g = simplify(g)
    out = set()
    items = g[1] if g[0] == "and" else [g]
    for x in items:
        if x[0] == "atom":
            out.add(x[1])
        elif x[0] == "not" and x[1][0] == "atom":
            out.add("not " + x[1][1])
    return out


def A(key: str):
    """Spec-side atom constructor."""
    return ("atom", key)


def AND(*xs):
    return ("and", list(xs))


def OR(*xs):
    return ("or", list(xs))


def NOT(x):
    return neg(x)


def spec_guard(src: str, rename: Optional[Rename] = None, int_atoms=None):
    """Parse a guard written as Python source in role symbols, normalise with the same machinery."""
    from .canon import Canon
    e = ast.fix_missing_locations(Canon().visit(ast.parse(src, mode="eval"))).body
    return simplify(Normalizer(None, rename, inline=False, int_atoms=int_atoms).guard(e))


def spec_rat(src: str, int_atoms=None) -> Rat:
    e = ast.parse(src, mode="eval").body
    return Normalizer(None, None, inline=False, int_atoms=int_atoms).rat(e)
