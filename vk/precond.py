"""Precondition obligations: `function F raises T exactly when <documented condition>`,
for every ballot where the condition is per-ballot, before any result exists."""
from __future__ import annotations

import ast
from typing import Callable, List, Optional, Sequence

from . import astx, facts
from .algebra import Normalizer, bool_key, simplify, equivalent, spec_guard, atoms_of, NotClosedForm
from .loader import Func, Program


class _Probe:
    """Records the verdict calls of one attempt so that only the chosen attempt reaches the real context."""

    def __init__(self, ctx):
        self.ctx = ctx
        self.calls = []

    def violated(self, *a, **k):
        self.calls.append(("violated", a, k))

    def undecided(self, *a, **k):
        self.calls.append(("undecided", a, k))

    def violated_shape(self, *a, **k):
        self.calls.append(("violated_shape", a, k))

    def check(self, *a, **k):
        self.calls.append(("check", a, k))

    def ok(self, *a, **k):
        self.calls.append(("ok", a, k))

    def replay(self):
        for name, a, k in self.calls:
            getattr(self.ctx, name)(*a, **k)


def _delegated_tests(f: Func, pm) -> bool:
    """Does some raise of f depend on what a function that the pinned tree does not have reported (a helper that gathers the
    tests and returns a message / a flag)?  Then the documented condition may be enforced there."""
    from .inline import load_known
    known = load_known() or {}
    names = set()
    for v in known.values():
        for q in v:
            names.add(q.split(".")[-1])
    if not names:
        return False

    def new_call(e):
        for n in ast.walk(e):
            if isinstance(n, ast.Call):
                nm = n.func.attr if isinstance(n.func, ast.Attribute) else (n.func.id if isinstance(n.func, ast.Name) else None)
                if nm and nm.startswith("_") and nm not in names and not nm.startswith("__"):
                    return True
        return False
    for r in astx.raises_in(f.node):
        for t, _ in astx.path_condition(f.node, r, pm, carried=False):
            if new_call(t):
                return True
            for n in ast.walk(t):
                if isinstance(n, ast.Name):
                    dv = astx.unique_def(f.node, n.id)
                    if dv is not None and new_call(dv):
                        return True
                    # ... or on a verdict variable that several branches set (message / None, True / False): the tests sit in
                    # the branches that set it, not in the guard of the raise
                    ds = [d for _, d in astx.defs_of(f.node, n.id) if d is not None]
                    if len(ds) >= 2 and all(isinstance(d, (ast.Constant, ast.JoinedStr)) for d in ds):
                        return True
    return False


def raise_guards(f: Func, N: Normalizer, pm=None):
    pm = pm or astx.parents(f.node)
    out = []
    for r in astx.raises_in(f.node):
        out.append((r, N.conj(astx.path_condition(f.node, r, pm))))
    return out


def obligation(ctx, f: Func, label: str, spec_src: str, exc: str, *, rename=None, int_atoms=None,
               forall: bool = False, before_super: bool = False, before_call: Optional[str] = None,
               inline: bool = False, loop_iter_suffix: str = "ballots", extra_env=None, allow_context: bool = False):
    """The union of the `raise exc` sites of f whose guard shares an atom with the spec must be
    equivalent to the spec, modulo the conditions of raises that precede them (early exits).
    Tried first on the guards as written, then with single-assignment locals inlined (a test on
    `ids = df.iloc[:, id_col]` is a test on `df.iloc[:, id_col]`); the verdict is the better of the two."""
    if inline is False:
        probe = _Probe(ctx)
        if obligation(probe, f, label, spec_src, exc, rename=rename, int_atoms=int_atoms, forall=forall, before_super=before_super, before_call=before_call,
                      inline=0, loop_iter_suffix=loop_iter_suffix, extra_env=extra_env, allow_context=allow_context):
            probe.replay()
            return True
        probe2 = _Probe(ctx)
        if obligation(probe2, f, label, spec_src, exc, rename=rename, int_atoms=int_atoms, forall=forall, before_super=before_super, before_call=before_call,
                      inline=1, loop_iter_suffix=loop_iter_suffix, extra_env=extra_env, allow_context=allow_context):
            probe2.replay()
            return True
        probe.replay()
        return False
    inline = bool(inline)
    N = Normalizer(f.node, rename=rename, inline=inline, int_atoms=int_atoms, extra_env=extra_env)
    pm = astx.parents(f.node)
    # in the inlining attempt the names the spec shares with the function (e.g. `df`) expand the same way on both sides
    spec_norm = Normalizer(f.node, None, inline=True, int_atoms=int_atoms, extra_env=extra_env) if inline else Normalizer(None, None, inline=False, int_atoms=int_atoms)
    n_miss = len(astx.MISSES)
    spec = simplify(spec_norm.guard(ast.parse(spec_src, mode="eval").body))
    del astx.MISSES[n_miss:]  # spec symbols (L, k, NC, b ...) are not locals the rule expected to find
    satoms = set(atoms_of(spec))
    allr = raise_guards(f, N, pm)
    scored = []
    for r, g in allr:
        own = astx.path_condition(f.node, r, pm, carried=False)
        n = len(set(atoms_of(simplify(N.guard(own[-1][0])))) & satoms) if own else 0
        scored.append((n, r, g))
    best = max((n for n, _, _ in scored), default=0)
    mine = [(r, g) for n, r, g in scored if n == best and n > 0]
    if not mine:
        # (in a function reorganised beyond a small edit - the test moved into a helper that reports what is wrong, say - the
        # rule no longer knows where to look: it cannot decide; a dropped or weakened guard is a small edit and is reported)
        msg = f"no raise in {f.short} is conditioned on `{bool_key(spec)}`: the documented precondition is not enforced"
        if _delegated_tests(f, pm):
            ctx.violated_shape(f, f.node, label, msg)
        else:
            ctx.violated(f, f.node, label, msg)
        return False
    wrong_type = [r for r, _ in mine if astx.raise_type(r) != exc]
    first_line = min(r.lineno for r, _ in mine)
    earlier = [g for r, g in allr if r.lineno < first_line and (r, g) not in mine]
    code = simplify(("or", [g for _, g in mine]))
    E = simplify(("or", earlier)) if earlier else ("const", False)
    if allow_context:
        # the documented condition applies inside an enclosing "when these parameters are given" block
        own = astx.path_condition(f.node, mine[0][0], pm, carried=False)
        ctxc = N.conj(own[:-1]) if len(own) > 1 else ("const", True)
        spec = simplify(("and", [spec, ctxc]))
        first_test = min((t.lineno for t, _ in own[:-1]), default=first_line)
        earlier = [g for r, g in allr if r.lineno < first_line and (r, g) not in mine]
        E = simplify(("or", earlier)) if earlier else ("const", False)
    try:
        same = equivalent(simplify(("or", [code, E])), simplify(("or", [spec, E])))
    except NotClosedForm as e:
        ctx.undecided(f, mine[0][0], label, str(e))
        return False
    problems = []
    if not same:
        problems.append(f"raised iff `{bool_key(code)}`; documented `{bool_key(spec)}`")
    if wrong_type:
        problems.append(f"raises {astx.raise_type(wrong_type[0])}, documented {exc}")
    if forall:
        for r, _ in mine:
            lp = astx.enclosing(r, pm, ast.For)
            if lp is None or loop_iter_suffix not in astx.u(lp.iter):
                problems.append("the test is not inside a loop over every ballot")
                break
            exits = [n for n in astx.walk_own(lp) if isinstance(n, (ast.Break, ast.Continue, ast.Return))]
            if exits:
                problems.append(f"the ballot loop can be left early (line {exits[0].lineno}); later ballots are not examined")
                break
    if before_super:
        sup = facts.super_init_call(f)
        def _excluded(r):
            """The raise and the constructor call stand in the two arms of one `if`: the call runs only when nothing is raised."""
            cur = astx.stmt_of(sup, pm)
            while cur is not None and cur is not f.node:
                par = pm.get(cur)
                if isinstance(par, ast.If):
                    mine_arm, other = (par.body, par.orelse) if cur in par.body else (par.orelse, par.body)
                    if any(r is n for st in other for n in ast.walk(st)):
                        return True
                cur = par
            return False
        # (statement order in the loaded tree, not line numbers: the loader's guard-clause form moves arms)
        pos = {}

        def _number(n):
            pos[id(n)] = len(pos)
            for c in ast.iter_child_nodes(n):
                _number(c)
        _number(f.node)
        if sup is None or not all(pos.get(id(r), 0) < pos.get(id(sup), -1) or _excluded(r) for r, _ in mine):
            problems.append("the rejection does not precede the base-class constructor (which runs the election)")
    if before_call:
        cs = astx.calls_in(f.node, before_call)
        if not cs or not all(r.lineno < min(c.lineno for c in cs) for r, _ in mine):
            problems.append(f"the rejection does not precede {before_call}()")
    ctx.check(not problems, f, mine[0][0], label, f"raise {exc} iff {bool_key(code)}", "; ".join(problems))
    return not problems


def called_before(ctx, f: Func, callee: str, label: str, before_super: bool = True, first_arg: Optional[str] = None):
    cs = [c for c in astx.calls_in(f.node, callee)]
    sup = facts.super_init_call(f)
    good = len(cs) >= 1 and (not before_super or (sup is not None and cs[0].lineno < sup.lineno))
    if good and first_arg is not None:
        good = bool(cs[0].args) and astx.u(cs[0].args[0]) == first_arg
        # ... and that name still holds the caller's argument there (not rebound earlier in the constructor)
        rebound = [n for n in astx.walk_own(f.node) if isinstance(n, ast.Name) and n.id == first_arg and isinstance(n.ctx, ast.Store) and n.lineno < cs[0].lineno]
        good = good and not rebound
    ctx.check(good, f, cs[0] if cs else f.node, label, "", f"{callee}() is not called on the constructor's profile before the election runs")
    return good
