"""Self-validation matrix (thorough tier): seeded faults must be reported, benign rewrites must not.

Each entry rewrites *source text of the current tree in memory* (an overlay handed to the
loader; nothing is written, VoteKit is never run) and re-runs the property's rules.
An entry whose anchor text is not present in the current tree is skipped and counted.
"""
from __future__ import annotations

import importlib
import os
import sys
from multiprocessing import Pool
from typing import Dict, List, Tuple

from .loader import Program, AnalysisError
from . import report


def _region(src: str, old, new: str):
    """old = (start marker, end marker): replace the text from the (unique) start marker up to the next end marker."""
    if len(old) == 3:
        # (context marker, start marker, end marker): the first start marker after the (unique) context marker
        c, a, b = old
        if src.count(c) != 1:
            return None
        i = src.find(a, src.index(c))
        if i < 0:
            return None
    else:
        a, b = old
        if src.count(a) != 1:
            return None
        i = src.index(a)
    j = src.find(b, i + len(a))
    if j < 0:
        return None
    return src[:i] + new + src[j:]


def _apply(prog_repo: str, rel: str, old, new: str, count: int = 1):
    path = os.path.join(prog_repo, rel)
    try:
        with open(path, encoding="utf-8") as fh:
            src = fh.read()
    except OSError:
        return None
    if isinstance(old, tuple):
        return _region(src, old, new)
    if src.count(old) < 1 or (count == 1 and src.count(old) != 1):
        return None
    return src.replace(old, new) if count != 1 else src.replace(old, new, 1)


def _run_variant(args):
    prop, kind, name, edits, expect = args
    sys.dont_write_bytecode = True
    repo = os.environ.get("VK_REPO", "/repo")
    overlay = {}
    for ed in edits:
        rel, old, new = ed[:3]
        every = len(ed) > 3 and ed[3] == "all"
        base = overlay.get(rel)
        if base is None:
            s = _apply(repo, rel, old, new, count=0 if every else 1)
        elif isinstance(old, tuple):
            s = _region(base, old, new)
        else:
            s = base.replace(old, new) if (every and old in base) else (base.replace(old, new, 1) if base.count(old) == 1 else None)
        if s is None:
            return (kind, name, "skipped", "anchor text not present in the current tree")
        overlay[rel] = s
    try:
        prog = Program(repo, overlay)
        mod = importlib.import_module(f"rules.{prop.lower()}")
        res = report.run_property(prop, mod, prog, "quick")
    except AnalysisError as e:
        return (kind, name, "error", str(e))
    except Exception as e:  # noqa
        return (kind, name, "error", f"{type(e).__name__}: {e}")
    viol = res.violations
    errs = res.errors
    if kind == "fault":
        hit = [o for o in viol if expect is None or o.rule == expect or o.rule.startswith(expect)]
        if hit:
            return (kind, name, "reported", f"{hit[0].rule} {hit[0].site}: {hit[0].construct}")
        if errs:
            return (kind, name, "undecided", f"{errs[0].rule}: {errs[0].detail}")
        if viol:
            return (kind, name, "reported-elsewhere", f"{viol[0].rule}: {viol[0].construct}")
        return (kind, name, "missed", "no rule fired")
    else:
        base_keys = set(expect or ())
        new_v = [o for o in viol if o.key() not in base_keys]
        if new_v:
            return (kind, name, "false-alarm", f"{new_v[0].rule} {new_v[0].site}: {new_v[0].construct}")
        if errs:
            return (kind, name, "false-undecided", f"{errs[0].rule}: {errs[0].detail}")
        return (kind, name, "silent", "")


def run_matrix(prop: str, mod, prog: Program, seed: int = 0) -> Tuple[Dict, List[str]]:
    faults = list(getattr(mod, "FAULTS", []))
    benign = list(getattr(mod, "BENIGN", []))
    if not faults and not benign:
        return {"self_validation": "no matrix defined for this property"}, []
    base = report.run_property(prop, mod, prog, "quick")
    base_keys = tuple(o.key() for o in base.violations)
    jobs = []
    for name, edits, expect in faults:
        jobs.append((prop, "fault", name, edits, expect))
    for name, edits in benign:
        jobs.append((prop, "benign", name, edits, base_keys))
    with Pool(min(16, max(1, len(jobs)))) as pool:
        results = pool.map(_run_variant, jobs)
    errs = []
    tally: Dict[str, int] = {}
    rows = []
    for kind, name, status, detail in results:
        tally[f"{kind}:{status}"] = tally.get(f"{kind}:{status}", 0) + 1
        rows.append({"kind": kind, "name": name, "status": status, "detail": detail[:200]})
        if kind == "fault" and status in ("missed", "error"):
            errs.append(f"seeded fault '{name}' was not reported ({status}: {detail})")
        if kind == "benign" and status in ("false-alarm", "false-undecided", "error"):
            errs.append(f"benign rewrite '{name}' raised an alarm ({status}: {detail})")
    for r in rows:
        print(f"  selfval {r['kind']:6s} {r['status']:18s} {r['name']} {('-- ' + r['detail']) if r['detail'] else ''}")
    return {"self_validation": {"variants": len(jobs), "tally": tally, "rows": rows}}, errs
