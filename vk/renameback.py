"""Undo a consistent renaming of local variables.

Many rules find their sites through the names of locals (anchors.json lists which).  A clean-up that renames locals
changes nothing observable, but leaves those rules without their handles.  known_locals.json records, for every
function of the pinned tree, how each local is bound (the alpha-normal text of the values assigned to it, or the
iterable it loops over).  When a function of the current tree lacks recorded locals and has others instead, a local
that is bound exactly like a missing recorded one - after substituting the renamings already established - is that
local under a new name; it is renamed back in the parsed tree (never on disk).  The matching is by definition, so it
survives reordered statements; it only accepts unambiguous one-to-one matches and never touches parameters.
Pure alpha-renaming: it cannot change what any rule decides about the program's behaviour."""
from __future__ import annotations

import ast
import copy
import json
import os
from typing import Dict, List, Optional, Set, Tuple

HERE = os.path.dirname(os.path.dirname(os.path.abspath(__file__)))
FuncDef = (ast.FunctionDef, ast.AsyncFunctionDef)


def _own(fn):
    stack = list(ast.iter_child_nodes(fn))
    while stack:
        n = stack.pop()
        yield n
        if isinstance(n, FuncDef + (ast.Lambda, ast.ClassDef)):
            continue
        stack.extend(ast.iter_child_nodes(n))


def _params(fn) -> Set[str]:
    a = fn.args
    out = {x.arg for x in a.posonlyargs + a.args + a.kwonlyargs}
    if a.vararg:
        out.add(a.vararg.arg)
    if a.kwarg:
        out.add(a.kwarg.arg)
    return out


def _text(e: ast.AST, sub: Dict[str, str]) -> str:
    """alpha-normal text of e with locals renamed by `sub` (a nested function: its parameter count and statement skeleton)"""
    from . import astx
    if isinstance(e, FuncDef):
        from .skeleton import digest
        return f"{len(e.args.args)} params, skeleton {digest(e)}"
    e = copy.deepcopy(e)
    for n in ast.walk(e):
        if isinstance(n, ast.Name) and n.id in sub:
            n.id = sub[n.id]
    return astx.ua(e)


def bindings(fn) -> Dict[str, List[Tuple[str, ast.AST]]]:
    """{local: [(kind, node)]}  kind: 'assign' value / 'aug' value / 'for' iterable / 'unpack' value / 'with' context"""
    out: Dict[str, List[Tuple[str, ast.AST]]] = {}
    par = _params(fn)

    def add(name, kind, node):
        if name not in par:
            out.setdefault(name, []).append((kind, node))
    comp_bound = set()
    for n in _own(fn):
        if isinstance(n, ast.comprehension):
            comp_bound |= {id(x) for x in ast.walk(n.target)}
    for n in _own(fn):
        if isinstance(n, ast.Assign):
            for t in n.targets:
                if isinstance(t, ast.Name):
                    add(t.id, "assign", n.value)
                elif isinstance(t, (ast.Tuple, ast.List)):
                    for k, el in enumerate(t.elts):
                        if isinstance(el, ast.Name):
                            add(el.id, f"unpack{k}", n.value)
        elif isinstance(n, ast.AnnAssign) and isinstance(n.target, ast.Name) and n.value is not None:
            add(n.target.id, "assign", n.value)
        elif isinstance(n, ast.AugAssign) and isinstance(n.target, ast.Name):
            add(n.target.id, "aug" + type(n.op).__name__, n.value)
        elif isinstance(n, ast.For):
            els = [n.target] if isinstance(n.target, ast.Name) else (list(n.target.elts) if isinstance(n.target, (ast.Tuple, ast.List)) else [])
            for k, el in enumerate(els):
                if isinstance(el, ast.Name):
                    add(el.id, f"for{k if len(els) > 1 else ''}", n.iter)
        elif isinstance(n, ast.With):
            for it in n.items:
                if isinstance(it.optional_vars, ast.Name):
                    add(it.optional_vars.id, "with", it.context_expr)
        elif isinstance(n, FuncDef):
            add(n.name, "def", n)     # a nested helper is a local name too
    return out


def signature(fn, sub: Optional[Dict[str, str]] = None) -> Dict[str, List[str]]:
    sub = sub or {}
    return {name: sorted(f"{k}:{_text(v, sub)}" for k, v in bs) for name, bs in bindings(fn).items()}


def load_recorded() -> Optional[Dict[str, Dict[str, Dict[str, List[str]]]]]:
    p = os.path.join(HERE, "known_locals.json")
    if not os.path.exists(p):
        return None
    with open(p) as fh:
        return json.load(fh)


def rename_back(fn, recorded: Dict[str, List[str]]) -> Dict[str, str]:
    """Rename locals of `fn` back to their recorded names where the match is unambiguous.  Returns {current: recorded}."""
    cur = bindings(fn)
    have = set(cur) | _params(fn) | {n.id for n in _own(fn) if isinstance(n, ast.Name)} | {n.name for n in _own(fn) if isinstance(n, FuncDef)}
    missing = {r for r in recorded if r not in have}
    extra = {c for c in cur if c not in recorded}
    mapping: Dict[str, str] = {}
    if not missing or not extra:
        return mapping
    for _ in range(80):
        progress = False
        sig = signature(fn, mapping)
        for r in sorted(missing):
            want = recorded[r]
            cands = [e for e in sorted(extra) if sig.get(e) == want]
            # the match must be one-to-one in both directions
            if len(cands) == 1 and sum(1 for r2 in missing if recorded[r2] == want) == 1:
                e = cands[0]
                mapping[e] = r
                missing.discard(r)
                extra.discard(e)
                progress = True
                break
        if not progress:
            break
    if mapping:
        for n in _own(fn):
            if isinstance(n, ast.Name) and n.id in mapping:
                n.id = mapping[n.id]
            elif isinstance(n, FuncDef) and n.name in mapping:
                # a renamed nested helper: its definition, and the reads of its name inside nested scopes
                n.name = mapping[n.name]
        defs = {v for v in mapping.values()} & {n.name for n in _own(fn) if isinstance(n, FuncDef)}
        if defs:
            back = {k: v for k, v in mapping.items() if v in defs}
            for n in ast.walk(fn):
                if isinstance(n, ast.Name) and n.id in back:
                    n.id = back[n.id]
    return mapping


def snapshot(trees) -> Dict[str, Dict[str, Dict[str, List[str]]]]:
    """The binding signatures of every function, taken at the stage of loading where `apply` runs (known_locals.json is
    this snapshot of the pinned tree: both sides of the comparison see the trees in the same state)."""
    from .inline import qualnames
    out = {}
    for mname, (rel, tree) in trees.items():
        rec = {}
        for q, (fn, _cls) in sorted(qualnames(tree).items()):
            rec[q] = signature(fn)
            for sub in [x for x in ast.walk(fn) if isinstance(x, FuncDef) and x is not fn]:
                rec[f"{q}.<locals>.{sub.name}"] = signature(sub)
        out[rel] = rec
    return out


def apply(trees, recorded) -> List[str]:
    """trees: {module name: (relative path, tree)}"""
    from .inline import qualnames
    log = []
    if recorded is None:
        return log
    for mname, (rel, tree) in trees.items():
        rec = recorded.get(rel)
        if not rec:
            continue
        for q, (fn, _cls) in qualnames(tree).items():
            if q in rec and rec[q]:
                m = rename_back(fn, rec[q])
                if m:
                    log.append(f"{rel}: {q}: locals renamed back {m}")
            # nested functions
            for sub in [n for n in ast.walk(fn) if isinstance(n, FuncDef) and n is not fn]:
                key = f"{q}.<locals>.{sub.name}"
                if key in rec and rec[key]:
                    m = rename_back(sub, rec[key])
                    if m:
                        log.append(f"{rel}: {key}: locals renamed back {m}")
    return log
