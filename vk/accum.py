"""Recognise 'accumulate into a dictionary' in the spellings Python programmers use for it.

    D[k] = D[k] + inc if k in D else first          (conditional expression; the loader turns it into if / else)
    if k in D: D[k] += inc  else: D[k] = first
    if k not in D: D[k] = zero          ... D[k] += inc
    D[k] = D.get(k, zero) + inc
    D = {k: zero for k in ...} / dict.fromkeys(ks, zero) / defaultdict(T)      ... D[k] += inc   or   D[k] = D[k] + inc

Each is reported as (dictionary, key, increment, value after the first increment) in normal form, so a rule states
"the weight of every ballot is added under its key, starting from 0" once and accepts all of them."""
from __future__ import annotations

import ast
from dataclasses import dataclass
from typing import List, Optional

from . import astx
from .algebra import Normalizer, NotClosedForm


@dataclass
class Accum:
    dict_name: str
    key: ast.AST
    inc: ast.AST
    first: Optional[str]      # normal form of the value stored the first time a key is seen (zero + inc), None if unknown
    inc_key: str
    node: ast.stmt
    conditional: bool          # the accumulation itself sits under a condition other than the first-time test


def _nf(N: Normalizer, e: ast.AST) -> str:
    try:
        return N.rat(e).key()
    except (NotClosedForm, ZeroDivisionError):
        return N.key(e)


def _sum_nf(N: Normalizer, a: ast.AST, b: ast.AST) -> Optional[str]:
    try:
        return (N.rat(a) + N.rat(b)).key()
    except (NotClosedForm, ZeroDivisionError):
        return None


def _is_sub(e, d: str, k: str) -> bool:
    return isinstance(e, ast.Subscript) and astx.is_name(e.value, d) and astx.u(e.slice) == k


def _split_add(value: ast.AST, d: str, k: str):
    """value == D[k] + inc  (either order) -> inc"""
    if isinstance(value, ast.BinOp) and isinstance(value.op, ast.Add):
        if _is_sub(value.left, d, k):
            return value.right
        if _is_sub(value.right, d, k):
            return value.left
    return None


def _get_default(value: ast.AST, d: str, k: str):
    """value == D.get(k, zero) + inc -> (zero, inc)"""
    if isinstance(value, ast.BinOp) and isinstance(value.op, ast.Add):
        for a, b in ((value.left, value.right), (value.right, value.left)):
            if isinstance(a, ast.Call) and isinstance(a.func, ast.Attribute) and a.func.attr == "get" and astx.is_name(a.func.value, d) and len(a.args) == 2 \
                    and astx.u(a.args[0]) == k:
                return a.args[1], b
    return None


def _membership(test: ast.AST, d: str, k: str) -> Optional[bool]:
    """`k in D` / `k in D.keys()` -> True ; `k not in D` -> False"""
    if isinstance(test, ast.Compare) and len(test.ops) == 1 and isinstance(test.ops[0], (ast.In, ast.NotIn)) and astx.u(test.left) == k:
        c = test.comparators[0]
        if astx.is_name(c, d) or (isinstance(c, ast.Call) and isinstance(c.func, ast.Attribute) and c.func.attr == "keys" and astx.is_name(c.func.value, d)):
            return isinstance(test.ops[0], ast.In)
    return None


def _initial_zero(fnode, d: str):
    """zero element when D is created with all its keys (comprehension / fromkeys) or as a defaultdict"""
    dv = astx.unique_def(fnode, d)
    if isinstance(dv, ast.DictComp):
        return dv.value
    if isinstance(dv, ast.Call) and astx.u(dv.func) in ("dict.fromkeys",) and len(dv.args) == 2:
        return dv.args[1]
    if isinstance(dv, ast.Call) and astx.u(dv.func).endswith("defaultdict") and dv.args:
        t = astx.u(dv.args[0])
        return ast.parse({"int": "0", "float": "0.0", "Fraction": "Fraction(0)"}.get(t, f"{t}()"), mode="eval").body
    return None


def accumulations(fnode: ast.AST, N: Optional[Normalizer] = None) -> List[Accum]:
    N = N or Normalizer(fnode, inline=False)
    pm = astx.parents(fnode)
    out: List[Accum] = []
    seen = set()
    stores = [n for n in astx.walk_own(fnode) if isinstance(n, (ast.Assign, ast.AugAssign))]
    for s in stores:
        tgt = s.targets[0] if isinstance(s, ast.Assign) and len(s.targets) == 1 else (s.target if isinstance(s, ast.AugAssign) else None)
        if not (isinstance(tgt, ast.Subscript) and isinstance(tgt.value, ast.Name)):
            continue
        d, k = tgt.value.id, astx.u(tgt.slice)
        if id(s) in seen:
            continue
        inc = zero = first = None
        if isinstance(s, ast.AugAssign) and isinstance(s.op, ast.Add):
            inc = s.value
        elif isinstance(s, ast.Assign):
            inc = _split_add(s.value, d, k)
            if inc is None:
                gd = _get_default(s.value, d, k)
                if gd is not None:
                    zero, inc = gd
        if inc is None:
            continue
        par = pm.get(s)
        conditional = False
        # if k in D: <acc> else: D[k] = first      /      if k not in D: D[k] = first else: <acc>
        if isinstance(par, ast.If) and _membership(par.test, d, k) is not None:
            mem = _membership(par.test, d, k)
            mine, other = (par.body, par.orelse) if any(x is s for x in par.body) else (par.orelse, par.body)
            in_true = mine is par.body
            if (mem and in_true) or (not mem and not in_true):
                inits = [x for x in other if isinstance(x, ast.Assign) and len(x.targets) == 1 and _is_sub(x.targets[0], d, k)]
                if len(inits) == 1 and len(other) == 1:
                    first = _nf(N, inits[0].value)
                    seen.add(id(inits[0]))
            par_block_holder = pm.get(par)
        else:
            par_block_holder = par
        if first is None and zero is None:
            # a guard `if k not in D: D[k] = zero` earlier in the same block
            blk = None
            for fld in ("body", "orelse", "finalbody"):
                lst = getattr(par, fld, None)
                if isinstance(lst, list) and any(x is s for x in lst):
                    blk = lst
            if blk is not None:
                idx = next(i for i, x in enumerate(blk) if x is s)
                for g in blk[:idx]:
                    if isinstance(g, ast.If) and _membership(g.test, d, k) is False and not g.orelse and len(g.body) == 1 and isinstance(g.body[0], ast.Assign) \
                            and _is_sub(g.body[0].targets[0], d, k):
                        zero = g.body[0].value
                        seen.add(id(g.body[0]))
                    if isinstance(g, ast.Expr) and isinstance(g.value, ast.Call) and isinstance(g.value.func, ast.Attribute) and g.value.func.attr == "setdefault" \
                            and astx.is_name(g.value.func.value, d) and len(g.value.args) == 2 and astx.u(g.value.args[0]) == k:
                        zero = g.value.args[1]
        if first is None and zero is None:
            zero = _initial_zero(fnode, d)
        if first is None and zero is not None:
            first = _sum_nf(N, zero, inc)
        # is the accumulation conditional on anything but the first-time test?
        conds = astx.path_condition(fnode, s, pm, carried=False)
        lp = astx.enclosing(s, pm, (ast.For, ast.While))
        inner = []
        for t, pol in conds:
            if lp is not None and not any(x is t for x in ast.walk(lp)):
                continue
            if _membership(t, d, k) is not None:
                continue
            inner.append((t, pol))
        conditional = bool(inner)
        out.append(Accum(d, tgt.slice, inc, first, _nf(N, inc), s, conditional))
        seen.add(id(s))
    return out


@dataclass
class Grouping:
    dict_name: str
    key: str        # text of the group key
    member: str     # text of what is appended to the group
    loop: ast.For   # the loop that fills the groups
    node: ast.AST


def groupings(fnode: ast.AST) -> List[Grouping]:
    """Group-by in its usual spellings, all reported as 'in loop L, member M is appended to the list under key K of D':
        D = {k: [] for k in ...};  for ...: D[K].append(M)
        D = {};                    for ...: D.setdefault(K, []).append(M)
        D = defaultdict(list);     for ...: D[K].append(M)
        D = {};                    for ...: if K not in D: D[K] = [] ... D[K].append(M)"""
    pm = astx.parents(fnode)
    out: List[Grouping] = []
    for c in astx.walk_own(fnode):
        if not (isinstance(c, ast.Call) and isinstance(c.func, ast.Attribute) and c.func.attr == "append" and len(c.args) == 1):
            continue
        recv = c.func.value
        d = k = None
        if isinstance(recv, ast.Subscript) and isinstance(recv.value, ast.Name):
            d, k = recv.value.id, recv.slice
            dv = astx.unique_def(fnode, d)
            pre_keyed = isinstance(dv, ast.DictComp) and isinstance(dv.value, ast.List) and not dv.value.elts
            dflt = isinstance(dv, ast.Call) and astx.u(dv.func).endswith("defaultdict") and dv.args and astx.u(dv.args[0]) == "list"
            guarded = False
            st = astx.stmt_of(c, pm)
            par = pm.get(st)
            for fld in ("body", "orelse"):
                lst = getattr(par, fld, None)
                if isinstance(lst, list) and any(x is st for x in lst):
                    for g in lst[: [i for i, x in enumerate(lst) if x is st][0]]:
                        if isinstance(g, ast.If) and _membership(g.test, d, astx.u(k)) is False and len(g.body) == 1 and isinstance(g.body[0], ast.Assign) \
                                and _is_sub(g.body[0].targets[0], d, astx.u(k)) and isinstance(g.body[0].value, ast.List) and not g.body[0].value.elts:
                            guarded = True
            if not (pre_keyed or dflt or guarded):
                continue
        elif isinstance(recv, ast.Call) and isinstance(recv.func, ast.Attribute) and recv.func.attr == "setdefault" and isinstance(recv.func.value, ast.Name) \
                and len(recv.args) == 2 and isinstance(recv.args[1], ast.List) and not recv.args[1].elts:
            d, k = recv.func.value.id, recv.args[0]
        else:
            continue
        lp = astx.enclosing(c, pm, ast.For)
        if lp is None:
            continue
        out.append(Grouping(d, astx.u(k), astx.u(c.args[0]), lp, c))
    return out


def is_first_component_key(key: ast.AST) -> bool:
    """sorted(..., key=...) orders by the first component only: lambda x: x[0] / itemgetter(0) / operator.itemgetter(0)"""
    if isinstance(key, ast.Lambda) and len(key.args.args) == 1:
        a = key.args.args[0].arg
        b = key.body
        return isinstance(b, ast.Subscript) and astx.is_name(b.value, a) and astx.is_const(b.slice, 0)
    if isinstance(key, ast.Call) and astx.u(key.func) in ("itemgetter", "operator.itemgetter") and len(key.args) == 1 and astx.is_const(key.args[0], 0):
        return True
    return False
