"""Call-site wiring checks shared by several properties."""
from __future__ import annotations

import ast
from typing import List, Optional, Tuple

from . import astx
from .loader import Program, Func, Class


def _callee(prog: Program, f: Func, c: ast.Call) -> Optional[Func]:
    fn = c.func
    if isinstance(fn, ast.Attribute) and astx.is_name(fn.value, "self") and f.cls is not None:
        return f.cls.lookup(fn.attr)
    if isinstance(fn, ast.Attribute) and isinstance(fn.value, ast.Call) and astx.is_name(fn.value.func, "super") and f.cls is not None:
        for base in f.cls.mro()[1:]:
            if fn.attr in base.methods:
                return base.methods[fn.attr]
        return None
    q = prog.resolve_expr(f.module, fn)
    if q and q in prog.functions:
        return prog.functions[q]
    if q and q in prog.classes:
        return prog.classes[q].lookup("__init__")
    return None


def _arg_name(e: ast.AST) -> Optional[str]:
    """The 'name' an argument expression carries: a bare local/parameter name, or the attribute name of self.<attr>."""
    if isinstance(e, ast.Name):
        return e.id
    if isinstance(e, ast.Attribute) and astx.is_name(e.value, "self"):
        return e.attr
    return None


def swapped_arguments(prog: Program, path_prefixes: Tuple[str, ...]) -> Tuple[int, List[Tuple[Func, ast.Call, str]]]:
    """Positional arguments whose own name is the name of a DIFFERENT parameter of the callee
    (e.g. f(zero_cands, verbose) for def f(verbose=..., zero_cands=...)).  Returns (#calls examined, findings)."""
    findings = []
    n = 0
    for f in prog.iter_functions(path_prefixes):
        if isinstance(f.node, ast.Lambda):
            continue
        for c in astx.calls_in(f.node):
            g = _callee(prog, f, c)
            if g is None or isinstance(g.node, ast.Lambda) or any(isinstance(a, ast.Starred) for a in c.args):
                continue
            params = list(g.params)
            if params and params[0] in ("self", "cls") and g.cls is not None:
                params = params[1:]
            n += 1
            kw_given = {k.arg for k in c.keywords}
            for i, a in enumerate(c.args):
                if i >= len(params):
                    break
                an = _arg_name(a)
                if an is None or an == params[i]:
                    continue
                if an in params and an not in kw_given:
                    j = params.index(an)
                    # genuinely swapped only if the parameter named like the argument is not itself receiving that argument
                    other = c.args[j] if j < len(c.args) else None
                    if other is None or _arg_name(other) != an:
                        findings.append((f, c, f"argument `{astx.u(a)}` is passed for parameter `{params[i]}` of {g.short}, which also has a parameter `{an}`"))
    return n, findings


def check_swapped(ctx, path_prefixes: Tuple[str, ...], label: str):
    n, findings = swapped_arguments(ctx.prog, path_prefixes)
    if not findings:
        ctx.ok(None, None, f"{label}: no positional argument is bound to a differently named parameter while a same-named one exists", f"{n} resolved call sites")
    for f, c, why in findings:
        ctx.violated(f, c, f"{f.short}: arguments bound to the wrong parameters in `{astx.u(c.func)}(...)`", f"`{astx.u(c)[:90]}`: {why} (caller and callee disagree on the parameter order)")
    if n < 10:
        ctx.vanished(f"{label}: only {n} resolved call sites")
