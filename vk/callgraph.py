"""Call resolution and reachability from the perspective of one concrete class."""
from __future__ import annotations

import ast
from typing import Dict, Iterable, List, Optional, Set, Tuple

from . import astx
from .loader import Program, Class, Func

ELECTION_ENTRY = ("__init__", "_run_election", "_run_step", "_is_finished", "_validate_profile")


def callees(prog: Program, f: Func, cls: Optional[Class]) -> Tuple[List[Func], List[Class], int, int]:
    """(resolved package callees, package classes constructed, resolved count, total count)."""
    out: List[Func] = []
    ctors: List[Class] = []
    total = resolved = 0
    for c in astx.calls_in(f.node) if not isinstance(f.node, ast.Lambda) else [n for n in ast.walk(f.node) if isinstance(n, ast.Call)]:
        total += 1
        fn = c.func
        if isinstance(fn, ast.Attribute) and astx.is_name(fn.value, "self") and cls is not None:
            m = cls.lookup(fn.attr)
            if m is not None:
                out.append(m)
                resolved += 1
            continue
        if isinstance(fn, ast.Attribute) and isinstance(fn.value, ast.Call) and astx.is_name(fn.value.func, "super") and f.cls is not None:
            for base in f.cls.mro()[1:]:
                if fn.attr in base.methods:
                    out.append(base.methods[fn.attr])
                    resolved += 1
                    break
            continue
        q = prog.resolve_expr(f.module, fn)
        if q and q in prog.functions:
            out.append(prog.functions[q])
            resolved += 1
        elif q and q in prog.classes:
            ctors.append(prog.classes[q])
            resolved += 1
        elif q:
            resolved += 1  # external
    return out, ctors, resolved, total


def reach(prog: Program, cls: Optional[Class], roots: Iterable[Func], follow_ctors: bool = True,
          depth: int = 8) -> Dict[str, Tuple[Func, Optional[Class]]]:
    """Functions reachable from roots. self.m() resolves through `cls` (the concrete class under
    analysis); constructing a package class adds its constructor and, for Election subclasses,
    the whole run (constructor chain runs the election)."""
    seen: Dict[str, Tuple[Func, Optional[Class]]] = {}
    work: List[Tuple[Func, Optional[Class], int]] = [(r, cls, 0) for r in roots]
    while work:
        f, c, d = work.pop()
        key = f.qualname + "@" + (c.name if c else "")
        if key in seen or d > depth:
            continue
        seen[key] = (f, c)
        fs, ctors, _, _ = callees(prog, f, c)
        for g in fs:
            work.append((g, c if g.cls is not None else None, d + 1))
        # nested functions defined inside f are assumed callable
        for g in prog.functions.values():
            if g.parent is f:
                work.append((g, c, d + 1))
        if follow_ctors:
            for k in ctors:
                names = ELECTION_ENTRY if k.is_subclass_of("Election") else ("__init__",)
                for nm in names:
                    m = k.lookup(nm)
                    if m is not None:
                        work.append((m, k, d + 1))
                # pydantic/dataclass validators run on construction
                for m in k.methods.values():
                    if any("validator" in astx.u(dd) for dd in getattr(m.node, "decorator_list", [])):
                        work.append((m, k, d + 1))
    return seen


def class_entry_points(cls: Class) -> List[Func]:
    out = []
    for nm in ELECTION_ENTRY:
        m = cls.lookup(nm)
        if m is not None:
            out.append(m)
    return out
