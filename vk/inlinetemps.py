"""Analyse an expression that was given a *new* name as if it still stood where it is used.

"Introduce a temporary" (`x = f(a); ... g(x) ...` for `... g(f(a)) ...`) is, with "extract helper" and "rename a
local", the commonest clean-up edit.  Nothing observable changes, but a rule that reads the expression at its use
site now finds a bare name.  known_locals.json lists the locals every function of the pinned tree has; a local of the
current tree that is NOT in that list (after the rename-back stage gave renamed locals their recorded names) and

  * is bound exactly once, by a plain `name = E` statement (never augmented, looped over, unpacked into, deleted),
  * is only read afterwards, in statements that follow the binding in the same block (so the binding dominates every
    read), never from a nested function or lambda, and is not mutated through a method call,
  * whose E mentions nothing that is re-bound or mutated between the binding and its last read, and is not captured by
    a comprehension variable at a read site,
  * and - when E draws random numbers - is read exactly once,
  * and is not bound the way a recorded local that has disappeared was bound (local names aside): such a name may be that
    local renamed (a renaming the rename-back stage could not resolve), not a new temporary,

is substituted for its reads and the binding is dropped.  Anything else is left exactly as it is.  The substitution
is the inverse of a semantics-preserving edit on the parsed trees only; it decides nothing by itself."""
from __future__ import annotations

import ast
import copy
from typing import Dict, List, Optional, Set

from .renameback import _own, _params, bindings, FuncDef

MUTATORS = {"append", "extend", "pop", "remove", "sort", "add", "update", "clear", "insert", "reverse", "discard", "popitem", "setdefault", "shuffle", "appendleft", "popleft"}
RANDOM_HINTS = ("random", "choice", "choices", "sample", "shuffle", "permutation", "dirichlet", "uniform", "randint", "rand",
                # package functions that may draw (directly or through a random tiebreak): never evaluated twice by a substitution
                "tiebreak_set", "tiebroken_ranking", "elect_cands_from_set_ranking", "transfer", "random_transfer", "generate_profile",
                "sample_cohesion_ballot_types", "_run_step", "get_profile", "get_step")
BLOCKS = ("body", "orelse", "finalbody", "handlers")


def _free_loads(e: ast.AST) -> Set[str]:
    bound = set()
    for n in ast.walk(e):
        if isinstance(n, ast.comprehension):
            bound |= {x.id for x in ast.walk(n.target) if isinstance(x, ast.Name)}
        elif isinstance(n, ast.Lambda):
            bound |= {a.arg for a in n.args.args}
    return {n.id for n in ast.walk(e) if isinstance(n, ast.Name)} - bound


def _draws(e: ast.AST) -> bool:
    for n in ast.walk(e):
        if isinstance(n, ast.Call):
            t = ast.unparse(n.func)
            if any(h in t.split(".") or t.endswith(h) for h in RANDOM_HINTS):
                return True
    return False


def _root(e: ast.AST) -> Optional[str]:
    while isinstance(e, (ast.Attribute, ast.Subscript, ast.Starred)):
        e = e.value
    return e.id if isinstance(e, ast.Name) else None


def _preorder(stmts: List[ast.stmt]):
    """nodes of stmts in source order (depth first)"""
    stack = list(reversed(stmts))
    while stack:
        n = stack.pop()
        yield n
        kids = list(ast.iter_child_nodes(n))
        if isinstance(n, (ast.Assign, ast.AugAssign, ast.AnnAssign)) and n.value is not None:
            kids = [n.value] + [k for k in kids if k is not n.value]    # the value is evaluated before the target is stored
        elif isinstance(n, (ast.For, ast.AsyncFor)):
            kids = [n.iter, n.target] + [k for k in kids if k is not n.iter and k is not n.target]
        stack.extend(reversed(kids))


def _touched(stmts: List[ast.stmt], name: str, everywhere: bool = False) -> Set[str]:
    """Names re-bound, stored through, or mutated by a method call at a point of stmts that can run between the
    binding of `name` (just before stmts) and one of its reads: before the last read in source order, or inside a loop
    of stmts that also holds a read."""
    order = {}
    for k, n in enumerate(_preorder(stmts)):
        order[id(n)] = k
    reads = [n for s in stmts for n in ast.walk(s) if isinstance(n, ast.Name) and n.id == name and isinstance(n.ctx, ast.Load)]
    last = max((order[id(n)] for n in reads), default=-1) if not everywhere else 10 ** 9
    loops = [l for s in stmts for l in ast.walk(s) if isinstance(l, (ast.For, ast.While, ast.AsyncFor))]
    loop_nodes = [({id(x) for x in ast.walk(l)}) for l in loops]
    loop_nodes = [ids for ids in loop_nodes if any(id(r) in ids for r in reads)]
    out: Set[str] = set()
    for s in stmts:
        for n in ast.walk(s):
            r = None
            if isinstance(n, (ast.Name, ast.Attribute, ast.Subscript)) and isinstance(getattr(n, "ctx", None), (ast.Store, ast.Del)):
                r = _root(n)
            elif isinstance(n, ast.Call) and isinstance(n.func, ast.Attribute) and n.func.attr in MUTATORS:
                r = _root(n.func.value)
            elif isinstance(n, ast.NamedExpr) and isinstance(n.target, ast.Name):
                r = n.target.id
            if r and (order[id(n)] < last or any(id(n) in ids for ids in loop_nodes)):
                out.add(r)
    return out


def _blocks(fn):
    """every statement list of fn's own scope"""
    stack = [fn]
    while stack:
        n = stack.pop()
        for fld in BLOCKS:
            b = getattr(n, fld, None)
            if isinstance(b, list) and b and isinstance(b[0], ast.stmt):
                yield b
                for s in b:
                    if not isinstance(s, FuncDef + (ast.ClassDef,)):
                        stack.append(s)
            elif isinstance(b, list) and b and isinstance(b[0], ast.ExceptHandler):
                stack.extend(b)
        if isinstance(n, ast.Match):
            for c in n.cases:
                yield c.body
                stack.extend(c.body)


class _Subst(ast.NodeTransformer):
    def __init__(self, name: str, value: ast.AST):
        self.name = name
        self.value = value
        self.count = 0

    def visit_Name(self, node):
        if node.id == self.name and isinstance(node.ctx, ast.Load):
            self.count += 1
            new = copy.deepcopy(self.value)
            for x in ast.walk(new):
                if hasattr(x, "lineno"):
                    x.lineno = getattr(node, "lineno", x.lineno)
                    x.end_lineno = getattr(node, "end_lineno", getattr(x, "end_lineno", None))
                    x.col_offset = getattr(node, "col_offset", 0)
                    x.end_col_offset = getattr(node, "end_col_offset", 0)
                    if hasattr(node, "_src_lineno"):
                        x._src_lineno = node._src_lineno
            return new
        return node


def _captured(stmt: ast.stmt, name: str, free: Set[str]) -> bool:
    """some read of `name` in stmt sits inside a comprehension / lambda that binds one of E's free names"""
    def walk(n, bound):
        if isinstance(n, (ast.ListComp, ast.SetComp, ast.GeneratorExp, ast.DictComp)):
            b = set(bound)
            for g in n.generators:
                # the first iterable is evaluated outside the comprehension's scope, later ones inside
                if walk(g.iter, b):
                    return True
                b |= {x.id for x in ast.walk(g.target) if isinstance(x, ast.Name)}
                for t in g.ifs:
                    if walk(t, b):
                        return True
            for part in ([n.elt] if not isinstance(n, ast.DictComp) else [n.key, n.value]):
                if walk(part, b):
                    return True
            return False
        if isinstance(n, ast.Lambda):
            return walk(n.body, set(bound) | {a.arg for a in n.args.args})
        if isinstance(n, ast.Name) and n.id == name and isinstance(n.ctx, ast.Load):
            return bool(bound & free)
        return any(walk(c, bound) for c in ast.iter_child_nodes(n))
    return walk(stmt, set())


def _one_pass(fn, recorded: Dict[str, list], suspects: Set[str] = frozenset(), leaf_only: bool = False) -> Optional[str]:
    par = _params(fn)
    bs = bindings(fn)
    unknown = {n for n in bs if n not in recorded and n not in par}
    nested_names = set()
    for n in _own(fn):
        if isinstance(n, FuncDef + (ast.Lambda,)):
            nested_names |= {x.id for x in ast.walk(n) if isinstance(x, ast.Name)}
    declared = {nm for n in _own(fn) if isinstance(n, (ast.Global, ast.Nonlocal)) for nm in n.names}
    for name in sorted(bs):
        if name in recorded or name in par or name in declared or name == "_" or name in suspects:
            continue
        in_nested = name in nested_names
        if len(bs[name]) != 1 or bs[name][0][0] != "assign":
            continue
        value = bs[name][0][1]
        # locate the binding statement and its block
        home = None
        for blk in _blocks(fn):
            for i, s in enumerate(blk):
                if (isinstance(s, ast.Assign) and len(s.targets) == 1 and isinstance(s.targets[0], ast.Name) and s.targets[0].id == name and s.value is value) or \
                        (isinstance(s, ast.AnnAssign) and isinstance(s.target, ast.Name) and s.target.id == name and s.value is value):
                    home = (blk, i)
        if home is None:
            continue
        blk, i = home
        occurrences = [n for n in (ast.walk(fn) if in_nested else _own(fn)) if isinstance(n, ast.Name) and n.id == name]
        if in_nested:
            # read from a nested function (a closure): only a value whose operands are never re-bound or mutated anywhere in the
            # function, and a name no nested scope binds itself
            free0 = _free_loads(value)
            order = {id(n): k for k, n in enumerate(_preorder(list(fn.body)))}
            here = order.get(id(blk[i]), -1)
            later_touch = set()
            for n in ast.walk(fn):
                r = None
                if isinstance(n, (ast.Name, ast.Attribute, ast.Subscript)) and isinstance(getattr(n, "ctx", None), (ast.Store, ast.Del)):
                    r = _root(n)
                elif isinstance(n, ast.Call) and isinstance(n.func, ast.Attribute) and n.func.attr in MUTATORS:
                    r = _root(n.func.value)
                if r and order.get(id(n), 10 ** 9) > here:
                    later_touch.add(r)
            if free0 & later_touch:
                continue
            if any(isinstance(n, FuncDef + (ast.Lambda,)) and name in ({a.arg for a in n.args.args} | {x.id for x in ast.walk(n) if isinstance(x, ast.Name) and isinstance(x.ctx, ast.Store)})
                   for n in ast.walk(fn) if n is not fn):
                continue
        stores = [n for n in occurrences if not isinstance(n.ctx, ast.Load)]
        if len(stores) != 1:
            continue
        after = blk[i + 1:]
        reads_after = [n for s in after for n in ast.walk(s) if isinstance(n, ast.Name) and n.id == name and isinstance(n.ctx, ast.Load)]
        reads = [n for n in occurrences if isinstance(n.ctx, ast.Load)]
        if not reads or len(reads_after) != len(reads):
            continue
        # the value may not read the name itself, and must not be a container that is then filled in place
        free = _free_loads(value)
        if name in free:
            continue
        if leaf_only and (free & (unknown - {name})):
            continue   # defined in terms of another unknown local: decided once that one has been renamed back or read through
        last = max(k for k, s in enumerate(after) if any(isinstance(n, ast.Name) and n.id == name for n in ast.walk(s)))
        span = after[:last + 1]
        touched = _touched(span, name)
        if name in touched or (free & touched):
            continue
        if isinstance(value, (ast.List, ast.Dict, ast.Set)) and not (value.elts if not isinstance(value, ast.Dict) else value.keys):
            continue
        if _draws(value) and len(reads) != 1:
            continue
        # an object constructed once and read several times stays one object (rules count the constructions)
        if len(reads) != 1 and any(isinstance(n, ast.Call) and ast.unparse(n.func).split(".")[-1][:1].isupper() for n in ast.walk(value)):
            continue
        if isinstance(value, (ast.Yield, ast.YieldFrom, ast.Await)):
            continue
        if any(_captured(s, name, free) for s in span):
            continue
        sub = _Subst(name, value)
        for k, s in enumerate(span):
            after[k] = sub.visit(s)
        blk[i + 1:] = after
        del blk[i]
        return name
    return None


def _suspects(fn, recorded: Dict[str, list]) -> Set[str]:
    """A recorded local that is gone may be living on under one of the unknown names (a renaming the rename-back stage
    has not resolved): an unknown name bound like a vanished local - up to the names of locals - is left alone."""
    import re
    from .renameback import signature
    present = {n.id for n in _own(fn) if isinstance(n, ast.Name)} | _params(fn)
    missing = [r for r in recorded if r not in present and r != "_"]
    if not missing:
        return set()
    cur = signature(fn)
    local_names = set(recorded) | set(cur)

    def anon(sig):
        return tuple(re.sub(r"\b[A-Za-z_]\w*\b", lambda m: "_" if m.group(0) in local_names else m.group(0), x) for x in sig)
    gone = {anon(recorded[r]) for r in missing}
    return {t for t in cur if t not in recorded and anon(cur[t]) in gone}


def inline_new_temps(fn, recorded: Dict[str, list], leaf_only: bool = False) -> List[str]:
    done = []
    for _ in range(40):
        # (recomputed after every substitution: reading a temporary through can complete the binding of a renamed local)
        nm = _one_pass(fn, recorded, _suspects(fn, recorded), leaf_only)
        if nm is None:
            break
        done.append(nm)
        if leaf_only:
            break   # one at a time: the rename-back stage gets its turn after each
    return done


def apply(trees, recorded, leaf_only: bool = False) -> List[str]:
    """trees: {module name: (relative path, tree)}; returns a log; the changed function nodes are re-canonicalised by
    the caller.  leaf_only: only temporaries whose value mentions no other unknown local (the loader alternates this with
    the rename-back stage, so that a renamed local whose binding mentions a new temporary is recognised once that
    temporary has been read through, and vice versa)."""
    from .inline import qualnames
    log = []
    if recorded is None:
        return log
    for mname, (rel, tree) in trees.items():
        rec = recorded.get(rel)
        if not rec:
            continue
        for q, (fn, _cls) in qualnames(tree).items():
            if q in rec:
                d = inline_new_temps(fn, rec[q], leaf_only)
                if d:
                    log.append(f"{rel}: {q}: new temporaries substituted {d}")
            # nested functions have their own recorded locals
            for sub in [n for n in ast.walk(fn) if isinstance(n, FuncDef) and n is not fn]:
                key = f"{q}.<locals>.{sub.name}"
                if key in rec:
                    d = inline_new_temps(sub, rec[key], leaf_only)
                    if d:
                        log.append(f"{rel}: {key}: new temporaries substituted {d}")
    return log
