"""Statement skeleton of a function: the nesting of its statement kinds, nothing of its expressions.

Some rules ("shape rules") recognise a construct by the arrangement of the statements around it.  Such a rule is only
entitled to a verdict where that arrangement is the one it was written for: when a function's skeleton differs from
the recorded one (known_functions.json), a VIOLATED verdict of a shape rule about it is reported as "cannot decide".
An edit that only changes expressions keeps the skeleton, and the verdict stands."""
from __future__ import annotations

import ast
import hashlib

_FUNC = (ast.FunctionDef, ast.AsyncFunctionDef, ast.ClassDef)


def _stmt(s: ast.stmt) -> str:
    t = type(s).__name__
    if isinstance(s, ast.Expr):
        v = s.value
        if isinstance(v, ast.Constant):
            return ""  # docstrings / bare constants
        if isinstance(v, ast.Call):
            f = v.func
            return "Call:" + (f.attr if isinstance(f, ast.Attribute) else getattr(f, "id", "?"))
        return "Expr"
    if isinstance(s, _FUNC):
        return t  # nested definitions are separate functions
    parts = [t]
    for fld in ("body", "orelse", "finalbody"):
        lst = getattr(s, fld, None)
        if isinstance(lst, list) and lst and isinstance(lst[0], ast.stmt):
            parts.append(fld[0] + "[" + ",".join(x for x in (_stmt(y) for y in lst) if x) + "]")
    if isinstance(s, ast.Try):
        for h in s.handlers:
            parts.append("h[" + ",".join(x for x in (_stmt(y) for y in h.body) if x) + "]")
    return "".join(parts)


def skeleton(fn: ast.AST) -> str:
    body = getattr(fn, "body", None)
    if not isinstance(body, list):
        return "lambda"
    return ",".join(x for x in (_stmt(s) for s in body) if x)


def digest(fn: ast.AST) -> str:
    return hashlib.sha256(skeleton(fn).encode()).hexdigest()[:16]
