"""Order-preserving pipeline rule (DESIGN Appendix C): does a rebuilt ranking keep the source order?

classify(expr) -> (cls, why) with cls in
  ORD    derived from `<x>.ranking` through order-preserving steps only
  NEW    freshly built material that carries no source order (a new last group, a permutation)
  UNORD  passed through an order-destroying step (set of positions, sorted, reversed, [::-1], shuffle)
  UNK    shape outside the idioms (-> UNDECIDED, not violated)
"""
from __future__ import annotations

import ast
from typing import Dict, List, Optional, Tuple

from . import astx

ORD, NEW, UNORD, UNK = "ORD", "NEW", "UNORD", "UNK"
DESTROYERS = {"sorted", "reversed", "set", "frozenset", "shuffle", "sample"}


class OrderPipe:
    def __init__(self, fn: ast.AST, source_attr: str = "ranking"):
        self.fn = fn
        self.attr = source_attr
        self.pm = astx.parents(fn)
        self._stack: List[str] = []

    # ------------------------------------------------------------------ names
    def _name(self, name: str) -> Tuple[str, str]:
        if name in self._stack:
            return ORD, "recursive"
        self._stack.append(name)
        try:
            defs = astx.defs_of(self.fn, name)
            if not defs:
                for n in astx.walk_own(self.fn):
                    if isinstance(n, ast.comprehension) and name in astx.assigned_names(n.target):
                        c, w = self.classify(n.iter)
                        return c, f"comprehension variable over {astx.u(n.iter)[:40]}: {w}"
                return UNK, f"{name} has no local definition"
            classes = []
            for st, dv in defs:
                if dv is None:
                    if isinstance(st, ast.For):
                        c, w = self.classify(st.iter)
                        classes.append((c if c != NEW else NEW, f"loop over {astx.u(st.iter)[:40]}: {w}"))
                    elif isinstance(st, ast.AugAssign) and isinstance(st.op, ast.Add) and isinstance(st.value, (ast.Tuple, ast.List)):
                        # name += (x,) / [x]: new material put at the end; what was there keeps its order
                        classes.append((NEW, f"{name} += display of new material"))
                    else:
                        classes.append((UNK, f"{name} bound by {type(st).__name__}"))
                    continue
                if isinstance(dv, (ast.List, ast.Tuple)) and not dv.elts:
                    classes.append(self._accumulator(name))
                else:
                    classes.append(self.classify(dv))
            # mutations other than append
            for n in astx.walk_own(self.fn):
                if isinstance(n, ast.Call) and isinstance(n.func, ast.Attribute) and astx.is_name(n.func.value, name):
                    if n.func.attr in ("insert", "sort", "reverse", "pop", "remove", "extend"):
                        classes.append((UNORD if n.func.attr in ("insert", "sort", "reverse") else UNK,
                                        f"{name}.{n.func.attr}() at line {n.lineno}"))
                if isinstance(n, ast.Call) and astx.call_name(n) == "shuffle" and n.args and astx.is_name(n.args[0], name):
                    classes.append((UNORD, f"shuffle({name})"))
            return self._meet(classes)
        finally:
            self._stack.pop()

    def _accumulator(self, name: str) -> Tuple[str, str]:
        """name = [] ; for p in <ORD>: ... name.append(g(p)) (single loop level over the source)."""
        apps = [n for n in astx.walk_own(self.fn) if isinstance(n, ast.Call) and isinstance(n.func, ast.Attribute)
                and n.func.attr == "append" and astx.is_name(n.func.value, name)]
        if not apps:
            return NEW, f"{name} stays empty"
        out = []
        for a in apps:
            loops = [l for l in astx.enclosing_loops(a, self.pm, self.fn) if isinstance(l, (ast.For, ast.While))]
            # the innermost loop *after* the (re-)initialisation of the accumulator decides the order
            init_loops = None
            for st, dv in astx.defs_of(self.fn, name):
                if isinstance(dv, (ast.List, ast.Tuple)) and not dv.elts:
                    init_loops = [l for l in astx.enclosing_loops(st, self.pm, self.fn) if isinstance(l, (ast.For, ast.While))]
            own = [l for l in loops if init_loops is None or l not in init_loops]
            if len(own) == 0:
                out.append((NEW, "append outside any loop"))
                continue
            if len(own) > 1:
                out.append((UNK, f"append nested in {len(own)} loops"))
                continue
            lp = own[0]
            if not isinstance(lp, ast.For):
                out.append((UNK, "append in a while loop"))
                continue
            c, w = self.classify(lp.iter)
            out.append((c, f"{name}.append(...) in `for {astx.u(lp.target)} in {astx.u(lp.iter)[:40]}`: {w}"))
        return self._meet(out)

    @staticmethod
    def _meet(classes: List[Tuple[str, str]]) -> Tuple[str, str]:
        order = {UNORD: 0, UNK: 1, ORD: 2, NEW: 3}
        if not classes:
            return UNK, "no definition"
        worst = min(classes, key=lambda c: order[c[0]])
        if worst[0] in (UNORD, UNK):
            return worst
        if any(c[0] == ORD for c in classes):
            return ORD, "; ".join(c[1] for c in classes if c[0] == ORD)[:160]
        return NEW, classes[0][1]

    # ------------------------------------------------------------------ expressions
    def classify(self, e: ast.AST) -> Tuple[str, str]:
        if isinstance(e, ast.Attribute):
            if e.attr == self.attr:
                return ORD, astx.u(e)
            return UNK, f"attribute {astx.u(e)}"
        if isinstance(e, ast.Name):
            return self._name(e.id)
        if isinstance(e, ast.Subscript):
            c, w = self.classify(e.value)
            if isinstance(e.slice, ast.Slice):
                st = e.slice.step
                if st is not None and not astx.is_const(st, 1):
                    return UNORD, f"slice with step {astx.u(st)} on {astx.u(e.value)[:30]}"
                return c, w
            return c, w
        if isinstance(e, ast.Call):
            fn = astx.call_name(e)
            if fn in ("tuple", "list") and len(e.args) == 1:
                return self.classify(e.args[0])
            if fn == "enumerate" and e.args:
                return self.classify(e.args[0])
            if fn in DESTROYERS and e.args:
                c, w = self.classify(e.args[0])
                if c in (ORD, UNORD):
                    return UNORD, f"{fn}(...) over {astx.u(e.args[0])[:40]}"
                return NEW, f"{fn}(...) of new material"
            if fn == "permutations":
                return NEW, "permutation of one tied position"
            return UNK, f"call {astx.u(e.func)}"
        if isinstance(e, (ast.ListComp, ast.GeneratorExp)):
            if len(e.generators) != 1:
                return UNK, "nested comprehension"
            c, w = self.classify(e.generators[0].iter)
            return c, f"[... for {astx.u(e.generators[0].target)} in {astx.u(e.generators[0].iter)[:40]}]: {w}"
        if isinstance(e, (ast.SetComp, ast.Set)):
            return UNORD, "set display over positions"
        if isinstance(e, (ast.List, ast.Tuple)):
            if not e.elts:
                return NEW, "empty"
            return NEW, "literal group(s)"
        if isinstance(e, ast.IfExp):
            return self._meet([self.classify(e.body), self.classify(e.orelse)])
        if isinstance(e, ast.BinOp) and isinstance(e.op, ast.Add):
            parts = self._flatten_add(e)
            cls = [self.classify(p) for p in parts]
            if any(c[0] in (UNORD, UNK) for c in cls):
                return self._meet(cls)
            ords = [(i, p) for i, (p, c) in enumerate(zip(parts, cls)) if c[0] == ORD]
            # source-order check: ORD slices must appear in increasing slice order; NEW material may
            # only sit after a full/prefix part (appended) or between prefix [:i] and suffix [i+1:]
            if len(ords) == 1:
                i, p = ords[0]
                if i == 0:
                    return ORD, f"{astx.u(p)[:30]} + new material at the end"
                if self._is_suffix_slice(p):
                    return UNORD, "new material placed before a suffix of the source without its prefix"
                return UNORD, "new material placed before the source ranking"
            if len(ords) == 2 and ords[0][0] == 0:
                a, b = ords[0][1], ords[1][1]
                if self._is_prefix_slice(a) and self._is_suffix_slice(b):
                    return ORD, f"prefix {astx.u(a)[:24]} + ... + suffix {astx.u(b)[:24]}"
            return UNK, "concatenation outside the prefix/middle/suffix idiom"
        return UNK, f"{type(e).__name__}"

    @staticmethod
    def _strip(e):
        while isinstance(e, ast.Call) and astx.call_name(e) in ("tuple", "list") and len(e.args) == 1:
            e = e.args[0]
        return e

    def _is_prefix_slice(self, e) -> bool:
        e = self._strip(e)
        return isinstance(e, ast.Subscript) and isinstance(e.slice, ast.Slice) and e.slice.lower is None and e.slice.upper is not None

    def _is_suffix_slice(self, e) -> bool:
        e = self._strip(e)
        return isinstance(e, ast.Subscript) and isinstance(e.slice, ast.Slice) and e.slice.lower is not None and e.slice.upper is None

    def _flatten_add(self, e) -> List[ast.AST]:
        if isinstance(e, ast.BinOp) and isinstance(e.op, ast.Add):
            return self._flatten_add(e.left) + self._flatten_add(e.right)
        return [e]
