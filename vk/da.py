"""Predicate-refined definite-assignment analysis (DESIGN §3.4) on the structured AST.

A use of a local is reported when, under some valuation of the function's *stable guard atoms*
(tests over parameters / self attributes that the function never rebinds), some structured path
reaches the use with the local unbound.  Loops run zero or more times.  Facts (§3.8) force atom
values or mark conjunctions of literals infeasible.
"""
from __future__ import annotations

import ast
import itertools
from typing import Callable, Dict, FrozenSet, List, Optional, Sequence, Set, Tuple

from . import astx
from .algebra import Normalizer, simplify, atoms_of

State = Optional[FrozenSet[str]]  # None = unreachable


def _join(a: State, b: State) -> State:
    if a is None:
        return b
    if b is None:
        return a
    return a & b


class Finding:
    def __init__(self, name: str, node: ast.AST, valuation: Dict[str, bool]):
        self.name, self.node, self.valuation = name, node, valuation

    def __repr__(self):
        return f"{self.name}@{getattr(self.node, 'lineno', 0)} under {self.valuation}"


def local_names(fn: ast.AST) -> Set[str]:
    out: Set[str] = set()
    nonlocal_: Set[str] = set()
    for n in astx.walk_own(fn):
        if isinstance(n, (ast.Global, ast.Nonlocal)):
            nonlocal_.update(n.names)
        elif isinstance(n, ast.Name) and isinstance(n.ctx, (ast.Store, ast.Del)):
            out.add(n.id)
        elif isinstance(n, (ast.FunctionDef, ast.AsyncFunctionDef, ast.ClassDef)):
            out.add(n.name)
        elif isinstance(n, ast.ExceptHandler) and n.name:
            out.add(n.name)
        elif isinstance(n, (ast.Import, ast.ImportFrom)):
            for a in n.names:
                out.add((a.asname or a.name).split(".")[0])
    # comprehension targets live in their own scope
    comp_targets: Set[str] = set()
    for n in astx.walk_own(fn):
        if isinstance(n, ast.comprehension):
            comp_targets.update(astx.assigned_names(n.target))
    real: Set[str] = set()
    for n in astx.walk_own(fn):
        if isinstance(n, ast.Name) and isinstance(n.ctx, (ast.Store, ast.Del)):
            if not _inside_comprehension_target(fn, n):
                real.add(n.id)
    out = {x for x in out if x in real or x not in comp_targets}
    return out - nonlocal_


_comp_cache: Dict[int, Set[int]] = {}


def _inside_comprehension_target(fn, name_node) -> bool:
    key = id(fn)
    if key not in _comp_cache:
        ids: Set[int] = set()
        for n in astx.walk_own(fn):
            if isinstance(n, ast.comprehension):
                for t in ast.walk(n.target):
                    ids.add(id(t))
        _comp_cache.clear()
        _comp_cache[key] = ids
    return id(name_node) in _comp_cache[key]


class DA:
    def __init__(self, fn: ast.AST, fact: Optional[Callable[[str], Optional[bool]]] = None,
                 infeasible: Sequence[Sequence[Tuple[str, bool]]] = (), max_atoms: int = 6):
        self.fn = fn
        self.fact = fact or (lambda a: None)
        self.infeasible = [list(c) for c in infeasible]
        self.locals = local_names(fn)
        a = fn.args
        self.params = {x.arg for x in a.posonlyargs + a.args + a.kwonlyargs}
        if a.vararg:
            self.params.add(a.vararg.arg)
        if a.kwarg:
            self.params.add(a.kwarg.arg)
        self.norm = Normalizer(fn, inline=False)
        self.assigned_attrs = self._assigned_self_attrs()
        self.stable = self._stable_atoms(max_atoms)
        self.findings: Dict[Tuple[str, int, int], Finding] = {}
        self.val: Dict[str, bool] = {}
        self.path: List[Tuple[str, bool]] = []

    # ---------------------------------------------------------------- stable atoms
    def _assigned_self_attrs(self) -> Set[str]:
        out = set()
        for n in astx.walk_own(self.fn):
            if isinstance(n, (ast.Assign, ast.AugAssign, ast.AnnAssign)):
                targets = n.targets if isinstance(n, ast.Assign) else [n.target]
                for t in targets:
                    for sub in ast.walk(t):
                        if isinstance(sub, ast.Attribute) and isinstance(sub.ctx, ast.Store):
                            out.add(astx.u(sub))
        return out

    def _is_stable_expr(self, e: ast.AST) -> bool:
        for n in ast.walk(e):
            if isinstance(n, ast.Name):
                if n.id in self.locals and n.id not in self.params:
                    return False
                if n.id in self.params and n.id in self._rebound_params():
                    return False
            if isinstance(n, ast.Attribute) and astx.u(n) in self.assigned_attrs:
                return False
            if isinstance(n, ast.Call) and astx.u(n.func) not in ("len", "isinstance"):
                return False
        return True

    def _rebound_params(self) -> Set[str]:
        if not hasattr(self, "_rp"):
            self._rp = {n.id for n in astx.walk_own(self.fn)
                        if isinstance(n, ast.Name) and isinstance(n.ctx, ast.Store) and n.id in self.params}
        return self._rp

    def _tests(self) -> List[ast.AST]:
        return [n.test for n in astx.walk_own(self.fn) if isinstance(n, (ast.If, ast.While, ast.IfExp))]

    def _atom_exprs(self, t: ast.AST) -> List[ast.AST]:
        if isinstance(t, ast.BoolOp):
            return [x for v in t.values for x in self._atom_exprs(v)]
        if isinstance(t, ast.UnaryOp) and isinstance(t.op, ast.Not):
            return self._atom_exprs(t.operand)
        return [t]

    def _stable_atoms(self, max_atoms: int) -> List[str]:
        count: Dict[str, int] = {}
        for t in self._tests():
            seen_here = set()
            for ae in self._atom_exprs(t):
                if not self._is_stable_expr(ae):
                    continue
                for a in atoms_of(simplify(self.norm.guard(ae))):
                    if a not in seen_here:
                        seen_here.add(a)
                        count[a] = count.get(a, 0) + 1
        atoms = [a for a, c in count.items() if self.fact(a) is None and (c >= 2 or self._in_infeasible(a))]
        atoms.sort(key=lambda a: (-count[a], a))
        return atoms[:max_atoms]

    def _in_infeasible(self, a: str) -> bool:
        return any(a == k for c in self.infeasible for k, _ in c)

    # ---------------------------------------------------------------- driver
    def run(self) -> List[Finding]:
        init = frozenset(self.params)
        for bits in itertools.product([False, True], repeat=len(self.stable)):
            self.val = dict(zip(self.stable, bits))
            if self._contradicts([]):
                continue
            self.path = []
            self._block(self.fn.body, init)
        return sorted(self.findings.values(), key=lambda f: (getattr(f.node, "lineno", 0), f.name))

    def _contradicts(self, extra: List[Tuple[str, bool]]) -> bool:
        lits = dict(self.val)
        for k, p in self.path + extra:
            if k in lits and lits[k] != p:
                return True
            lits[k] = p
        for conj in self.infeasible:
            if all(lits.get(k) == p for k, p in conj):
                return True
        return False

    # ---------------------------------------------------------------- three-valued tests
    def _eval(self, g) -> Optional[bool]:
        if g[0] == "const":
            return g[1]
        if g[0] == "atom":
            f = self.fact(g[1])
            if f is not None:
                return f
            if g[1] in self.val:
                return self.val[g[1]]
            for k, p in self.path:
                if k == g[1]:
                    return p
            return None
        if g[0] == "not":
            r = self._eval(g[1])
            return None if r is None else (not r)
        vals = [self._eval(x) for x in g[1]]
        if g[0] == "and":
            if any(v is False for v in vals):
                return False
            return True if all(v is True for v in vals) else None
        if any(v is True for v in vals):
            return True
        return False if all(v is False for v in vals) else None

    def _literals(self, g, pol: bool) -> List[Tuple[str, bool]]:
        """Literals that certainly hold when g evaluates to pol."""
        if g[0] == "atom":
            return [(g[1], pol)]
        if g[0] == "not":
            return self._literals(g[1], not pol)
        if g[0] == "and" and pol:
            return [l for x in g[1] for l in self._literals(x, True)]
        if g[0] == "or" and not pol:
            return [l for x in g[1] for l in self._literals(x, False)]
        return []

    # ---------------------------------------------------------------- expressions
    def _use(self, e: Optional[ast.AST], st: State):
        if e is None or st is None:
            return
        self._use_walk(e, st, frozenset())

    def _use_walk(self, e: ast.AST, st: FrozenSet[str], bound: FrozenSet[str]):
        if isinstance(e, ast.Name):
            if isinstance(e.ctx, ast.Load) and e.id in self.locals and e.id not in st and e.id not in bound:
                key = (e.id, e.lineno, e.col_offset)
                if key not in self.findings:
                    self.findings[key] = Finding(e.id, e, dict(self.val))
            return
        if isinstance(e, astx.FuncNode) or isinstance(e, ast.ClassDef):
            return  # closures are evaluated later
        if isinstance(e, (ast.ListComp, ast.SetComp, ast.GeneratorExp, ast.DictComp)):
            b = bound
            for i, g in enumerate(e.generators):
                self._use_walk(g.iter, st, b)
                b = b | frozenset(astx.assigned_names(g.target))
                for t in g.ifs:
                    self._use_walk(t, st, b)
            for part in ("elt", "key", "value"):
                if hasattr(e, part):
                    self._use_walk(getattr(e, part), st, b)
            return
        if isinstance(e, ast.BoolOp):
            # short circuit: only the first operand is certainly evaluated; later ones are guarded
            # by earlier ones, which the structured analysis does not refine -> check all
            for v in e.values:
                self._use_walk(v, st, bound)
            return
        if isinstance(e, ast.IfExp):
            self._use_walk(e.test, st, bound)
            g = simplify(self.norm.guard(e.test))
            r = self._eval(g)
            if r is not False:
                self._use_walk(e.body, st, bound)
            if r is not True:
                self._use_walk(e.orelse, st, bound)
            return
        for ch in ast.iter_child_nodes(e):
            self._use_walk(ch, st, bound)

    # ---------------------------------------------------------------- statements
    def _block(self, stmts: Sequence[ast.stmt], st: State):
        """returns (normal_out, break_states, continue_states)"""
        brk: List[State] = []
        cont: List[State] = []
        for s in stmts:
            if st is None:
                break
            st, b, c = self._stmt(s, st)
            brk += b
            cont += c
        return st, brk, cont

    def _define(self, target: ast.AST, st: FrozenSet[str]) -> FrozenSet[str]:
        # evaluate sub-expressions of the target (subscripts / attributes) as uses
        for n in ast.walk(target):
            if isinstance(n, (ast.Subscript, ast.Attribute)) and isinstance(n.ctx, ast.Store):
                self._use(n.value, st)
                if isinstance(n, ast.Subscript):
                    self._use(n.slice, st)
        return st | frozenset(astx.assigned_names(target))

    def _stmt(self, s: ast.stmt, st: FrozenSet[str]):
        none: List[State] = []
        if isinstance(s, ast.Assign):
            self._use(s.value, st)
            for t in s.targets:
                st = self._define(t, st)
            return st, none, none
        if isinstance(s, ast.AnnAssign):
            if s.value is not None:
                self._use(s.value, st)
                st = self._define(s.target, st)
            return st, none, none
        if isinstance(s, ast.AugAssign):
            self._use(s.value, st)
            if isinstance(s.target, ast.Name):
                self._use(ast.Name(id=s.target.id, ctx=ast.Load(), lineno=s.lineno, col_offset=s.col_offset), st)
            st = self._define(s.target, st)
            return st, none, none
        if isinstance(s, ast.Expr):
            self._use(s.value, st)
            return st, none, none
        if isinstance(s, ast.Return):
            self._use(s.value, st)
            return None, none, none
        if isinstance(s, ast.Raise):
            self._use(s.exc, st)
            self._use(s.cause, st)
            return None, none, none
        if isinstance(s, ast.Assert):
            self._use(s.test, st)
            if astx.is_const(s.test, False):
                return None, none, none
            return st, none, none
        if isinstance(s, ast.Delete):
            for t in s.targets:
                if isinstance(t, ast.Name):
                    st = st - {t.id}
            return st, none, none
        if isinstance(s, ast.Pass) or isinstance(s, (ast.Global, ast.Nonlocal)):
            return st, none, none
        if isinstance(s, (ast.Import, ast.ImportFrom)):
            return st | frozenset((a.asname or a.name).split(".")[0] for a in s.names), none, none
        if isinstance(s, (ast.FunctionDef, ast.AsyncFunctionDef, ast.ClassDef)):
            return st | {s.name}, none, none
        if isinstance(s, ast.Break):
            return None, [st], none
        if isinstance(s, ast.Continue):
            return None, none, [st]
        if isinstance(s, ast.If):
            self._use(s.test, st)
            g = simplify(self.norm.guard(s.test))
            r = self._eval(g)
            out: State = None
            brk: List[State] = []
            cont: List[State] = []
            for pol, body in ((True, s.body), (False, s.orelse)):
                if r is not None and r != pol:
                    continue
                lits = self._literals(g, pol)
                if self._contradicts(lits):
                    continue
                self.path.extend(lits)
                o, b, c = self._block(body, st)
                del self.path[len(self.path) - len(lits):]
                out = _join(out, o)
                brk += b
                cont += c
            return out, brk, cont
        if isinstance(s, (ast.For, ast.AsyncFor)):
            self._use(s.iter, st)
            body_in = self._define(s.target, st)
            o, b, c = self._block(s.body, body_in)
            # second pass with the loop-carried state (o joined with entry) to catch uses that
            # depend on definitions from a previous iteration only
            carried = _join(body_in, _join(o, None) if o is not None else None)
            for cs in c:
                carried = _join(carried, cs)
            after_body = _join(o, None)
            for cs in c:
                after_body = _join(after_body, cs)
            exit_state = _join(st, after_body)  # zero iterations, or exhausted after >=1
            if s.orelse:
                exit_state, b2, c2 = self._block(s.orelse, exit_state)
            else:
                b2, c2 = [], []
            for bs in b:
                exit_state = _join(exit_state, bs)
            return exit_state, b2, c2
        if isinstance(s, ast.While):
            self._use(s.test, st)
            g = simplify(self.norm.guard(s.test))
            r = self._eval(g)
            o, b, c = self._block(s.body, st) if r is not False else (None, [], [])
            after_body = o
            for cs in c:
                after_body = _join(after_body, cs)
            exit_state: State = None if r is True else _join(st, after_body)
            if s.orelse and exit_state is not None:
                exit_state, b2, c2 = self._block(s.orelse, exit_state)
            else:
                b2, c2 = [], []
            for bs in b:
                exit_state = _join(exit_state, bs)
            return exit_state, b2, c2
        if isinstance(s, (ast.With, ast.AsyncWith)):
            for it in s.items:
                self._use(it.context_expr, st)
                if it.optional_vars is not None:
                    st = self._define(it.optional_vars, st)
            return self._block(s.body, st)
        if isinstance(s, ast.Try):
            o, b, c = self._block(s.body, st)
            # a handler may start from any prefix of the body: only `st` is certain
            outs = []
            if s.orelse and o is not None:
                o, b1, c1 = self._block(s.orelse, o)
                b += b1
                c += c1
            outs.append(o)
            for h in s.handlers:
                hst = st | ({h.name} if h.name else frozenset())
                ho, hb, hc = self._block(h.body, hst)
                outs.append(ho)
                b += hb
                c += hc
            out: State = None
            for x in outs:
                out = _join(out, x)
            if s.finalbody:
                fo, fb, fc = self._block(s.finalbody, st if out is None else out)
                out = fo if out is not None else None
                b += fb
                c += fc
            return out, b, c
        if isinstance(s, ast.Match):
            raise NotImplementedError("match statement")
        # unknown statement kind: be conservative
        for ch in ast.iter_child_nodes(s):
            if isinstance(ch, ast.expr):
                self._use(ch, st)
        return st, none, none


def analyse(fn: ast.AST, fact=None, infeasible=()) -> List[Finding]:
    return DA(fn, fact, infeasible).run()
