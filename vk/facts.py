"""Constructor chains, callable slots and the checked facts F1..F4 / A2 of DESIGN §3.8."""
from __future__ import annotations

import ast
from typing import Dict, List, Optional, Tuple

from . import astx
from .loader import Program, Class, Func, AnalysisError


def super_init_call(f: Func) -> Optional[ast.Call]:
    """The `super().__init__(...)` call of a constructor (None if absent)."""
    hits = []
    for c in astx.calls_in(f.node, "__init__"):
        fn = c.func
        if isinstance(fn, ast.Attribute) and isinstance(fn.value, ast.Call) and astx.is_name(fn.value.func, "super"):
            hits.append(c)
    if len(hits) > 1:
        raise AnalysisError(f"{f.short}: {len(hits)} super().__init__ calls")
    return hits[0] if hits else None


def own_or_inherited_init(cls: Class) -> Optional[Func]:
    return cls.lookup("__init__")


def next_init(cls_of_init: Class) -> Optional[Func]:
    """The __init__ that super().__init__ resolves to from a constructor defined in cls_of_init."""
    mro = cls_of_init.mro()
    for c in mro[1:]:
        if "__init__" in c.methods:
            return c.methods["__init__"]
    return None


class Chain:
    """Constructor chain of a concrete class: list of (init Func, call-to-next, binding of next's
    params to argument expressions written in the *current* init's scope)."""

    def __init__(self, prog: Program, cls: Class):
        self.cls = cls
        self.links: List[Tuple[Func, Optional[ast.Call], Dict[str, ast.AST]]] = []
        f = own_or_inherited_init(cls)
        seen = set()
        while f is not None and f.qualname not in seen:
            seen.add(f.qualname)
            call = super_init_call(f)
            nxt = next_init(f.cls) if call is not None else None
            binding: Dict[str, ast.AST] = {}
            if call is not None and nxt is not None:
                binding = astx.bind_args(call, nxt.params, skip_self=True)
            self.links.append((f, call, binding))
            f = nxt if call is not None else None

    def inits(self) -> List[Func]:
        return [l[0] for l in self.links]

    def arg_at(self, target_init_cls: str, param: str) -> Tuple[Optional[ast.AST], Optional[Func], str]:
        """Expression bound to `param` of <target_init_cls>.__init__, as written in the constructor
        that calls it, resolved upwards through pass-through parameters.
        Returns (expr, scope Func in which expr is written, status) with status in
        {'expr', 'default', 'user'}: 'user' = comes straight from the concrete class's own caller."""
        # locate the link whose *next* init is target
        idx = None
        for i, (f, call, binding) in enumerate(self.links):
            if i + 1 < len(self.links) and self.links[i + 1][0].cls.name == target_init_cls:
                idx = i
        if idx is None:
            if self.links and self.links[0][0].cls.name == target_init_cls:
                return None, self.links[0][0], "user"
            raise AnalysisError(f"anchor-missing: {self.cls.name} never reaches {target_init_cls}.__init__")
        cur_param = param
        i = idx
        while i >= 0:
            f, call, binding = self.links[i]
            target = self.links[i + 1][0]
            if cur_param not in binding:
                d = target.param_default(cur_param)
                return d, target, "default"
            e = binding[cur_param]
            # pass-through of the current init's own parameter (not rebound)?
            if isinstance(e, ast.Name) and e.id in f.params and not _rebound(f, e.id):
                if i == 0:
                    return e, f, "user"
                cur_param = e.id
                i -= 1
                continue
            return e, f, "expr"
        return None, None, "user"


def _rebound(f: Func, name: str) -> bool:
    return any(isinstance(n, ast.Name) and isinstance(n.ctx, ast.Store) and n.id == name
               for n in astx.walk_own(f.node))


def election_classes(prog: Program, concrete_only: bool = True) -> List[Class]:
    out = []
    for c in prog.subclasses("Election", strict=True):
        if concrete_only:
            abstract = False
            for name in ("_run_step", "_is_finished", "_validate_profile"):
                m = c.lookup(name)
                if m is None or prog.is_abstract(m):
                    abstract = True
            if abstract:
                continue
        out.append(c)
    return out


def score_function_slot(prog: Program, cls: Class) -> Tuple[str, Optional[ast.AST], Optional[Func]]:
    """('none'|'expr'|'user', expr, scope) for the value reaching Election.__init__'s score_function."""
    ch = Chain(prog, cls)
    e, scope, status = ch.arg_at("Election", "score_function")
    if status == "default" or e is None or astx.is_const(e, None):
        return "none", e, scope
    if status == "user":
        return "user", e, scope
    # a local assigned once (Borda: score_function = partial(...))
    if isinstance(e, ast.Name) and scope is not None:
        v = astx.unique_def(scope.node, e.id)
        if v is not None:
            e = v
    return "expr", e, scope


def writers_of_attr(prog: Program, attr: str, classes: Optional[List[Class]] = None) -> List[Tuple[Func, ast.AST]]:
    """All stores `<anything>.attr = ...` / augmented stores in the package (optionally limited
    to methods of the given classes)."""
    out = []
    for f in prog.iter_functions():
        if isinstance(f.node, ast.Lambda):
            continue
        if classes is not None and (f.cls is None or f.cls not in classes):
            continue
        for n in astx.walk_own(f.node):
            if isinstance(n, ast.Attribute) and isinstance(n.ctx, ast.Store) and n.attr == attr:
                out.append((f, n))
    return out


def F1_holds(prog: Program, owner: Class) -> Tuple[bool, str]:
    """self.score_function is truthy in every concrete class that uses methods defined in `owner`."""
    users = [c for c in election_classes(prog) if owner in c.mro()]
    if not users:
        return False, f"no concrete class uses {owner.name}"
    for c in users:
        kind, e, _ = score_function_slot(prog, c)
        if kind != "expr":
            return False, f"{c.name}: score_function slot is {kind}"
    # nothing else writes the attribute
    ws = [(f, n) for f, n in writers_of_attr(prog, "score_function") if f.short != "Election.__init__"]
    if ws:
        return False, "score_function written outside Election.__init__: " + ", ".join(f.short for f, _ in ws)
    return True, f"{len(users)} concrete classes pass a non-None score_function"


def slot_functions(prog: Program, e: ast.AST, scope: Func) -> List[Func]:
    """Package functions a score_function slot expression denotes (name or partial(name, ...))."""
    if isinstance(e, ast.Call) and astx.call_name(e) == "partial" and e.args:
        e = e.args[0]
    q = prog.resolve_expr(scope.module, e)
    if q and q in prog.functions:
        return [prog.functions[q]]
    return []
