"""Obligations, finding keys, known-findings matching, evidence and replay files."""
from __future__ import annotations

import ast
import json
import os
import time
from dataclasses import dataclass, field, asdict
from typing import Callable, Dict, List, Optional

from .loader import Program, Func, AnalysisError
from .algebra import NotClosedForm

VERIF = os.path.dirname(os.path.dirname(os.path.abspath(__file__)))

DISCHARGED, VIOLATED, UNDECIDED, VANISHED = "DISCHARGED", "VIOLATED", "UNDECIDED", "VANISHED"


@dataclass
class Ob:
    rule: str
    status: str
    site: str  # file:line Class.func
    function: str  # qualified name (stable key)
    construct: str  # normalised construct (stable key, no line numbers)
    detail: str  # human-readable: what was compared with what
    known: bool = False

    def key(self):
        return (self.rule, self.function, self.construct)


class Ctx:
    """Per-property run context handed to the rules."""

    def __init__(self, prog: Program, prop: str, tier: str = "quick"):
        self.prog = prog
        self.prop = prop
        self.tier = tier
        self.obs: List[Ob] = []
        self.info: List[str] = []
        self.functions_consulted: set = set()
        self.rule_floor: Dict[str, int] = {}
        self.cur_rule = ""
        self._shape = 0  # > 0 while a shape rule is running (see shape_rule below)
        self._tolerance = 0  # clause-level gating tolerates a small edit of the skeleton (check_shape / violated_shape)

    # -- recording
    def _add(self, status, f: Optional[Func], node, construct: str, detail: str, rule: Optional[str] = None):
        site = f.loc(node) if f is not None else "<package>"
        fn = f.qualname if f is not None else "<package>"
        if f is not None:
            self.functions_consulted.add(f.qualname)
        if status == VIOLATED and self._shape and f is not None and not os.environ.get("VK_NO_GATING") and _restructured(self.prog, f, self._tolerance):
            status = UNDECIDED
            detail = (f"{f.short} has been restructured (its statement skeleton differs from the one this shape rule was written for); "
                      f"the rule cannot decide it. Was: {detail}")[:600]
        ob = Ob(rule or self.cur_rule, status, site, fn, construct, detail)
        self.obs.append(ob)
        return ob

    def ok(self, f, node, construct, detail="", rule=None):
        return self._add(DISCHARGED, f, node, construct, detail, rule)

    def violated(self, f, node, construct, detail, rule=None):
        return self._add(VIOLATED, f, node, construct, detail, rule)

    def undecided(self, f, node, construct, detail, rule=None):
        return self._add(UNDECIDED, f, node, construct, detail, rule)

    def vanished(self, what: str, rule=None):
        return self._add(VANISHED, None, None, what, f"anchor-missing: {what}", rule)

    def check(self, cond: bool, f, node, construct, ok_detail="", bad_detail="", rule=None):
        if cond:
            return self.ok(f, node, construct, ok_detail, rule)
        return self.violated(f, node, construct, bad_detail or ok_detail, rule)

    def check_shape(self, cond: bool, f, node, construct, ok_detail="", bad_detail="", rule=None):
        """A clause that recognises its construct by the arrangement of statements: when it does not find that arrangement
        in a function that has been restructured since the rule was written, it cannot decide (see vk/skeleton.py)."""
        if cond:
            return self.ok(f, node, construct, ok_detail, rule)
        self._shape += 1
        self._tolerance = CLAUSE_TOLERANCE
        try:
            return self.violated(f, node, construct, bad_detail or ok_detail, rule)
        finally:
            self._shape -= 1
            self._tolerance = 0

    def violated_shape(self, f, node, construct, detail, rule=None):
        self._shape += 1
        self._tolerance = CLAUSE_TOLERANCE
        try:
            return self.violated(f, node, construct, detail, rule)
        finally:
            self._shape -= 1
            self._tolerance = 0

    def floor(self, rule: str, n: int):
        self.rule_floor[rule] = n

    def note(self, s: str):
        self.info.append(s)

    def consult(self, f: Func):
        self.functions_consulted.add(f.qualname)


_SKELETONS: Optional[Dict[str, Dict[str, str]]] = None
CLAUSE_TOLERANCE = 4   # skeleton tokens


def _restructured(prog: Program, f: Func, tolerance: int = 0) -> bool:
    """Does f's statement skeleton differ from the recorded one (or is f not a recorded function at all)?  With a tolerance,
    a difference of at most that many skeleton tokens (a statement dropped or wrapped: the typical small edit) does not
    count as a restructuring."""
    global _SKELETONS
    from . import skeleton
    if _SKELETONS is None:
        p = os.path.join(VERIF, "known_functions.json")
        _SKELETONS = json.load(open(p)) if os.path.exists(p) else {}
    rec = _SKELETONS.get(f.module.path)
    if not isinstance(rec, dict):
        return False  # no record: the rule keeps its verdict
    q = f.qualname[len(f.module.name) + 1:] if f.qualname.startswith(f.module.name + ".") else f.qualname
    want = rec.get(q)
    if want is None:
        return "<locals>" not in q  # an unrecorded (new) function; nested functions are not recorded
    have = skeleton.skeleton(f.node)
    if have == want or skeleton.digest(f.node) == want:
        return False
    if tolerance and len(want) != 16:
        import difflib
        import re as _re
        a, b = _re.findall(r"[A-Za-z_:]+|[\[\]]", want), _re.findall(r"[A-Za-z_:]+|[\[\]]", have)
        sm = difflib.SequenceMatcher(None, a, b, autojunk=False)
        dist = sum(max(i2 - i1, j2 - j1) for tag, i1, i2, j1, j2 in sm.get_opcodes() if tag != "equal")
        return dist > tolerance
    return True


def shape_rule(fn):
    """Marks a rule that recognises its construct by the arrangement of the statements around it (see vk/skeleton.py)."""
    import functools

    @functools.wraps(fn)
    def wrapper(ctx):
        ctx._shape += 1
        try:
            return fn(ctx)
        finally:
            ctx._shape -= 1
    wrapper.is_shape_rule = True
    return wrapper


def load_known(path: Optional[str] = None) -> List[dict]:
    path = path or os.path.join(VERIF, "known_findings.json")
    if not os.path.exists(path):
        return []
    with open(path) as fh:
        return json.load(fh).get("findings", [])


def run_property(prop: str, module, prog: Program, tier: str) -> "Result":
    t0 = time.time()
    ctx = Ctx(prog, prop, tier)
    from . import astx as _astx
    node_owner = {id(f.node): f.qualname for f in prog.functions.values()}
    for rule_id, fn, floor, _desc in module.RULES:
        ctx.cur_rule = rule_id
        ctx.floor(rule_id, floor)
        del _astx.MISSES[:]
        n_before = len(ctx.obs)
        try:
            fn(ctx)
        except AnalysisError as e:
            ctx._add(VANISHED if "anchor-missing" in str(e) else UNDECIDED, None, None, str(e), str(e), rule_id)
        except (AttributeError, IndexError, KeyError, TypeError, ValueError, NotClosedForm) as e:
            # a rule tripping over an unexpected shape is "cannot decide", never a verdict
            import traceback
            tb = traceback.extract_tb(e.__traceback__)[-1]
            ctx._add(UNDECIDED, None, None, f"{rule_id}: unexpected shape", f"{type(e).__name__}: {e} at {tb.filename.split('/')[-1]}:{tb.lineno}", rule_id)
        # a rule that asked for a local name which no longer occurs in the function cannot tell a
        # renamed local from a broken one: its verdicts about that function become UNDECIDED
        missed = {}
        for nid, name in _astx.MISSES:
            if nid in node_owner:
                missed.setdefault(node_owner[nid], set()).add(name)
        if missed:
            for o in ctx.obs[n_before:]:
                if o.status == VIOLATED and o.function in missed:
                    o.status = UNDECIDED
                    o.detail = (f"local anchor(s) {sorted(missed[o.function])} not found in {o.function.split('.')[-1]} (renamed or removed); "
                                f"the rule cannot decide this site. Was: {o.detail}")[:600]
    # local-name anchors (anchors.json, generated per rule on the pinned tree): a VIOLATED verdict of a
    # rule about a function in which a local that the rule's text mentions by name no longer occurs is
    # UNDECIDED (a renamed local cannot be told from a broken one); other rules' verdicts stand
    apath = os.path.join(VERIF, "anchors.json")
    if os.path.exists(apath):
        with open(apath) as fh:
            anchors = json.load(fh).get(prop, {})
        present_cache = {}
        for o in ctx.obs:
            if o.status != VIOLATED:
                continue
            names = anchors.get(o.rule, {}).get(o.function)
            if not names:
                continue
            if o.function not in present_cache:
                f = prog.functions.get(o.function)
                present_cache[o.function] = {n.id for n in ast.walk(f.node) if isinstance(n, ast.Name)} if f is not None else None
            present = present_cache[o.function]
            if present is None:
                continue
            gone = [x for x in names if x not in present]
            if gone:
                o.status = UNDECIDED
                o.detail = (f"local anchor(s) {gone} no longer occur in {o.function.split('.')[-1]} (renamed or removed); rule {o.rule} "
                            f"identifies sites in this function through them and cannot decide it. Was: {o.detail}")[:600]
    # floors
    for rule_id, _fn, floor, _d in module.RULES:
        n = sum(1 for o in ctx.obs if o.rule == rule_id and o.status != VANISHED)
        if n < floor and not any(o.rule == rule_id and o.status in (VANISHED, UNDECIDED) for o in ctx.obs):
            ctx._add(VANISHED, None, None, f"{rule_id} matched {n} sites, floor {floor}",
                     f"anchor-missing: rule {rule_id} matched {n} sites (< floor {floor})", rule_id)
    known = [k for k in load_known() if k.get("status") == "known" and k.get("property") == prop]
    for o in ctx.obs:
        if o.status == VIOLATED:
            for k in known:
                if k.get("rule") == o.rule and k.get("function") == o.function and k.get("construct") == o.construct:
                    o.known = True
    return Result(prop, tier, ctx, module, time.time() - t0)


class Result:
    def __init__(self, prop, tier, ctx: Ctx, module, wall):
        self.prop, self.tier, self.ctx, self.module, self.wall = prop, tier, ctx, module, wall
        self.extra: Dict = {}

    @property
    def violations(self) -> List[Ob]:
        return [o for o in self.ctx.obs if o.status == VIOLATED and not o.known]

    @property
    def known(self) -> List[Ob]:
        return [o for o in self.ctx.obs if o.status == VIOLATED and o.known]

    @property
    def errors(self) -> List[Ob]:
        return [o for o in self.ctx.obs if o.status in (UNDECIDED, VANISHED)]

    def exit_code(self) -> int:
        if self.violations:
            return 1
        if self.errors:
            return 2
        return 0

    def evidence(self, seed: int) -> dict:
        ctx = self.ctx
        rules = {}
        for rule_id, _fn, floor, desc in self.module.RULES:
            obs = [o for o in ctx.obs if o.rule == rule_id]
            rules[rule_id] = {
                "what": desc,
                "floor": floor,
                "sites": len(obs),
                "discharged": sum(1 for o in obs if o.status == DISCHARGED),
                "known": sum(1 for o in obs if o.status == VIOLATED and o.known),
                "violated": sum(1 for o in obs if o.status == VIOLATED and not o.known),
                "undecided": sum(1 for o in obs if o.status in (UNDECIDED, VANISHED)),
            }
        samples = []
        seen_rules = set()
        for o in ctx.obs:
            if o.rule not in seen_rules or o.status != DISCHARGED:
                seen_rules.add(o.rule)
                samples.append({"rule": o.rule, "status": o.status + ("(known)" if o.known else ""),
                                "site": o.site, "construct": o.construct, "detail": o.detail})
        n = len(ctx.obs)
        distinct = len({o.key() for o in ctx.obs})
        cov = {
            "explanation": self.module.EXPLANATION,
            "files_parsed": len(ctx.prog.modules),
            "tree_digest": ctx.prog.tree_digest(),
            "functions_consulted": sorted(ctx.functions_consulted),
            "functions_consulted_count": len(ctx.functions_consulted),
            "rules": rules,
            "obligations": n,
            "discharged": sum(1 for o in ctx.obs if o.status == DISCHARGED),
            "known_findings": len(self.known),
            "undecided": len(self.errors),
            "evaluations": n,
            "distinct_nontrivial": distinct,
            "rule": "one obligation = one rule applied to one site of /repo/src/votekit found on this run; "
                    "distinct = distinct (rule, function, normalised construct) keys",
            "exhaustive": True,
            "samples": samples[:60],
            "checker_cmd": f"./check {self.prop} {self.tier}",
            "trusted_base": list(getattr(self.module, "TRUSTED", [])),
            "info": ctx.info[:80],
        }
        cov.update(self.extra)
        return {
            "property_id": self.prop,
            "tier": self.tier,
            "seed": seed,
            "level": "other",
            "coverage": cov,
            "assumptions": list(getattr(self.module, "ASSUMPTIONS", [])),
            "wall_s": round(self.wall, 3),
            "violations": len(self.violations),
        }

    def _out_root(self) -> str:
        """Evidence and replays under /verif describe /repo only; a run against a scratch tree (VK_REPO) writes elsewhere."""
        repo = os.environ.get("VK_REPO", "/repo")
        if os.path.realpath(repo) == os.path.realpath("/repo"):
            return VERIF
        return os.path.join(os.environ.get("TMPDIR", "/tmp"), "vk_scratch_out", os.path.basename(os.path.normpath(repo)))

    def write(self, seed: int):
        os.makedirs(os.path.join(self._out_root(), "evidence"), exist_ok=True)
        p = os.path.join(self._out_root(), "evidence", f"{self.prop}.json")
        with open(p, "w") as fh:
            json.dump(self.evidence(seed), fh, indent=1, sort_keys=False)
        return p

    def write_replay(self) -> Optional[str]:
        if not self.violations:
            return None
        d = os.path.join(self._out_root(), "replays")
        os.makedirs(d, exist_ok=True)
        p = os.path.join(d, f"{self.prop}.json")
        with open(p, "w") as fh:
            json.dump({"property": self.prop, "tree_digest": self.ctx.prog.tree_digest(),
                       "findings": [asdict(o) for o in self.violations]}, fh, indent=1)
        return p

    def print(self, verbose: bool = True):
        ctx = self.ctx
        by_rule: Dict[str, List[Ob]] = {}
        for o in ctx.obs:
            by_rule.setdefault(o.rule, []).append(o)
        print(f"== {self.prop} {self.tier}: {len(ctx.prog.modules)} files, "
              f"{len(ctx.functions_consulted)} functions consulted, {len(ctx.obs)} obligations")
        for rule_id, _fn, floor, desc in self.module.RULES:
            obs = by_rule.get(rule_id, [])
            d = sum(1 for o in obs if o.status == DISCHARGED)
            print(f"  {rule_id}: sites={len(obs)} discharged={d} floor={floor} -- {desc}")
        for line in ctx.info:
            print(f"  info: {line}")
        for o in self.errors:
            print(f"ANALYSIS-ERROR property={self.prop} rule={o.rule} site={o.site} reason={o.detail}")
        for o in self.known:
            print(f"KNOWN-FINDING: property={self.prop} rule={o.rule} {o.site}: {o.construct} -- {o.detail}")
        replay = self.write_replay()
        for o in self.violations:
            print(f"  violation: rule={o.rule} site={o.site} construct={o.construct!r} -- {o.detail}")
        if self.violations:
            print(f"VIOLATION property={self.prop} replay={replay}")
